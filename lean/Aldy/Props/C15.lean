import Aldy.Model.Filters
import Mathlib.Tactic.Linarith
import Mathlib.Algebra.Order.Ring.Rat

/-!
# C15 — calls are backed by high-quality reads; low-quality reads are ignored
-/

namespace Aldy

/-- an observation below either quality threshold -/
def lowObs (p : ProfileV) (o : Obs) : Prop := o.2 < p.minQuality ∨ o.1 < p.minMapq

theorem qfilter_list_ignores_low (p : ProfileV) (l low : List Obs) (h : ∀ o ∈ low, lowObs p o) :
    (l ++ low).filter (fun (o : Obs) => decide (o.2 ≥ p.minQuality) && decide (o.1 ≥ p.minMapq)) =
      l.filter (fun (o : Obs) => decide (o.2 ≥ p.minQuality) && decide (o.1 ≥ p.minMapq)) := by
  rw [List.filter_append]
  have : low.filter (fun (o : Obs) => decide (o.2 ≥ p.minQuality) && decide (o.1 ≥ p.minMapq)) = [] := by
    rw [List.filter_eq_nil_iff]
    intro o ho
    rcases h o ho with h1 | h1
    · have : ¬ (o.2 ≥ p.minQuality) := not_le.mpr h1
      simp [this]
    · have : ¬ (o.1 ≥ p.minMapq) := not_le.mpr h1
      simp [this]
  rw [this, List.append_nil]

/-- **qfilter_ignores_low** the quality filter of a variant depends only on its qualifying
observations: adding any observations that fail the base- or mapping-quality threshold (at
the end of the variant's list) leaves it unchanged. -/
theorem qfilter_ignores_low (p : ProfileV) (c c' : Cov) (m : Mut) (low : List Obs) (h : ∀ o ∈ low, lowObs p o)
    (hq : c'.quals m = c.quals m ++ low) : c'.qualityFilter p m = c.qualityFilter p m := by
  unfold Cov.qualityFilter
  rw [hq]
  have := qfilter_list_ignores_low p (c.quals m) low h
  simpa using this

/-- the quality filter keeps only qualifying observations -/
theorem qfilter_sound (p : ProfileV) (c : Cov) (m : Mut) (o : Obs) (ho : o ∈ c.qualityFilter p m) :
    o ∈ c.quals m ∧ p.minQuality ≤ o.2 ∧ p.minMapq ≤ o.1 := by
  unfold Cov.qualityFilter at ho
  simp only [List.mem_filter, Bool.and_eq_true, decide_eq_true_eq, ge_iff_le] at ho
  exact ⟨ho.1, ho.2.1, ho.2.2⟩

/-- the quality filter is idempotent on a list -/
theorem qfilter_idem (p : ProfileV) (l : List Obs) :
    let f := fun (o : Obs) => decide (o.2 ≥ p.minQuality) && decide (o.1 ≥ p.minMapq)
    (l.filter f).filter f = l.filter f := by
  simp [List.filter_filter]

/-- **called_core_supported** an allele is a candidate for calling only if its structure is part
of the gene structure and every one of its core variants has positive support in the evidence
that passed the quality and threshold filters. -/
theorem called_core_supported (g : GeneView) (p : ProfileV) (s : CNSol) (c : Cov) (a : MajorA)
    (ha : a ∈ (filterAlleles g p s c).1) :
    (∃ cc ∈ s.solution, cc.1 = a.cnConfig) ∧ ∀ m ∈ a.func, 0 < (majorFilteredCov g p s c).coverage m := by
  simp only [filterAlleles, List.mem_filter, Bool.and_eq_true, List.any_eq_true, beq_iff_eq, List.all_eq_true,
    decide_eq_true_eq] at ha
  obtain ⟨_, ⟨cc, hcc, he⟩, hall⟩ := ha
  exact ⟨⟨cc, hcc, he⟩, fun m hm => hall m hm⟩

/-- **unsupported_core_never_called** contrapositive: an allele one of whose core variants has
no qualifying support is not a candidate. -/
theorem unsupported_core_never_called (g : GeneView) (p : ProfileV) (s : CNSol) (c : Cov) (a : MajorA)
    (m : Mut) (hm : m ∈ a.func) (h0 : (majorFilteredCov g p s c).coverage m ≤ 0) :
    a ∉ (filterAlleles g p s c).1 := by
  intro ha
  have := (called_core_supported g p s c a ha).2 m hm
  linarith

/-- the threshold filter answers `true` only with at least `min_coverage` observations and at
least the configured fraction of the locus depth -/
theorem basicFilter_sound (c : Cov) (p : ProfileV) (m : Mut) (cn thres : Option Rat)
    (h : c.basicFilter p m cn thres = true) :
    p.minCoverage ≤ c.coverage m := by
  unfold Cov.basicFilter at h
  simp only [decide_eq_true_eq, ge_iff_le] at h
  have hmax : ∀ a b : Rat, a ≤ Cov.ratMax a b := by
    intro a b; unfold Cov.ratMax; split <;> linarith
  exact le_trans (hmax _ _) h

/-- ... and at least the configured fraction `threshold / cn` of the locus depth -/
theorem basicFilter_fraction (c : Cov) (p : ProfileV) (m : Mut) (cn : Rat) (hcn : cn ≠ 0)
    (h : c.basicFilter p m (some cn) none = true) :
    c.total m * (p.threshold / cn) ≤ c.coverage m := by
  unfold Cov.basicFilter at h
  simp only [decide_eq_true_eq, ge_iff_le] at h
  have hmax : ∀ a b : Rat, b ≤ Cov.ratMax a b := by
    intro a b; unfold Cov.ratMax; split <;> linarith
  have hc : (cn == 0) = false := by simpa using hcn
  simp only [hc, Bool.false_eq_true, if_false] at h
  exact le_trans (hmax _ _) h

/-- what the two-step major filter demands of a variant it lets through -/
theorem majorFilter_sound (g : GeneView) (p : ProfileV) (s : CNSol) (c : Cov) (m : Mut)
    (h : majorFilterFn g p s c m = .keep true) : p.minCoverage ≤ c.coverage m := by
  unfold majorFilterFn at h
  simp only at h
  split at h
  · simp only [Cov.FilterRes.keep.injEq, Bool.and_eq_true] at h
    exact basicFilter_sound c p m _ _ h.1
  · simp only [Cov.FilterRes.keep.injEq] at h
    exact basicFilter_sound c p m _ _ h

/-! ### Non-vacuity -/
example : (Cov.mk [(5, [("A>G", [(60, 60), (5, 60), (60, 3)])])] []).qualityFilter
    { threshold := 1/2, minCoverage := 2, minQuality := 10, minMapq := 10, cnMax := 20, gap := 0, cnPcePenalty := 2, cnDiff := 10,
      cnFit := 1, cnParsimony := 1/2, cnFusionLeft := 1/2, cnFusionRight := 1/4, majorNovel := 21, minorMiss := 3/2, minorAdd := 1,
      minorPhase := 2/5 } ⟨5, "A>G"⟩ = [(60, 60)] := by decide +kernel

end Aldy
