import Aldy.Props.C04Spec

/-!
# C04 — the helpers of the refinement model are functions of the reported assignment

Two feasible points that report the same assignment (the same copy selectors `A`, keep selectors
`K` and add selectors `N`) agree on every product helper and on every error term
(`minor_helpers_determined`): what a point "says" about carried copies and row errors is fixed by
the assignment it reports.  Together with Props/C04Spec (`minor_optimum_score_is_spec`) the score
of an optimum is a function of the reported assignment.
-/

namespace Aldy
open MinorInst

/-- the two points report the same assignment of copies and variants -/
structure SameAssignment (I : MinorInst) (σ τ : NVar → Rat) : Prop where
  hA : ∀ cs ∈ I.slots, σ (.A cs.2) = τ (.A cs.2)
  hK : ∀ cs ∈ I.slots, ∀ m ∈ cs.1.defMuts, σ (.K m cs.2) = τ (.K m cs.2)
  hN : ∀ cs ∈ I.slots, ∀ m ∈ I.newMuts cs.1, σ (.N m cs.2) = τ (.N m cs.2)

theorem actOf_congr {σ τ : NVar → Rat} {v : NVar} (h : σ v = τ v) : actOf σ v = actOf τ v := by
  unfold actOf; rw [h]

/-- **minor_helpers_determined** -/
theorem minor_helpers_determined (I : MinorInst) (σ τ : NVar → Rat) (hσ : I.build.Sat σ) (hτ : I.build.Sat τ)
    (hdef : ∀ cs ∈ I.slots, ∀ m ∈ cs.1.defMuts, m ∈ I.mutations) (hs : SameAssignment I σ τ) :
    (∀ cs ∈ I.slots, ∀ m ∈ cs.1.defMuts, σ (.MULK m cs.2) = τ (.MULK m cs.2)) ∧
    (∀ cs ∈ I.slots, ∀ m ∈ I.newMuts cs.1, σ (.MULN m cs.2) = τ (.MULN m cs.2)) ∧
    (∀ m ∈ I.mutations, σ (.E m) = τ (.E m)) ∧
    (∀ pos ∈ I.positions, σ (.E (refMut' pos)) = τ (.E (refMut' pos))) := by
  have hmulk : ∀ cs ∈ I.slots, ∀ m ∈ cs.1.defMuts, σ (.MULK m cs.2) = τ (.MULK m cs.2) := by
    intro cs hcs m hm
    rw [mulk_value I σ hσ hdef cs hcs m hm, mulk_value I τ hτ hdef cs hcs m hm,
      actOf_congr (hs.hA cs hcs), actOf_congr (hs.hK cs hcs m hm)]
  have hmuln : ∀ cs ∈ I.slots, ∀ m ∈ I.newMuts cs.1, σ (.MULN m cs.2) = τ (.MULN m cs.2) := by
    intro cs hcs m hm
    rw [muln_value I σ hσ hdef cs hcs m hm, muln_value I τ hτ hdef cs hcs m hm,
      actOf_congr (hs.hA cs hcs), actOf_congr (hs.hN cs hcs m hm)]
  refine ⟨hmulk, hmuln, ?_, ?_⟩
  · -- variant rows: E = observed - carried copies, and the carried copies are products of the assignment
    intro m hm
    rw [(minor_error_rows I σ hσ m hm).1, (minor_error_rows I τ hτ m hm).1,
      varTerms_value I σ hσ hdef m hm, varTerms_value I τ hτ hdef m hm]
    congr 1
    unfold MinorInst.carriedBy
    apply sum_map_congr
    intro cs hcs
    unfold MinorInst.carriesB
    rw [actOf_congr (hs.hA cs hcs)]
    by_cases h1 : m ∈ cs.1.defMuts
    · have hc : cs.1.defMuts.contains m = true := by simpa using h1
      simp only [hc, if_true]
      rw [actOf_congr (hs.hK cs hcs m h1)]
    · have hc : cs.1.defMuts.contains m = false := by simpa using h1
      simp only [hc, Bool.false_eq_true, if_false]
      by_cases h2 : I.hasCov cs.1 m.pos = true
      · have hnew : m ∈ I.newMuts cs.1 :=
          List.mem_filter.mpr ⟨hm, by simp only [h2, Bool.true_and, Bool.not_eq_true']; exact hc⟩
        rw [actOf_congr (hs.hN cs hcs m hnew)]
      · have h2' : I.hasCov cs.1 m.pos = false := by simpa using h2
        simp [h2']
  · -- reference rows
    intro pos hp
    rw [minor_ref_rows I σ hσ pos hp, minor_ref_rows I τ hτ pos hp,
      refTerms_value I σ hσ hdef pos, refTerms_value I τ hτ hdef pos]
    congr 1
    unfold MinorInst.refBy
    apply sum_map_congr
    intro cs hcs
    by_cases hc : I.hasCov cs.1 pos = true
    · simp only [hc, Bool.not_true, Bool.false_eq_true, if_false]
      rw [actOf_congr (hs.hA cs hcs)]
      have hnew : ((I.newAt cs.1 pos).map fun m => b2r (actOf τ (.A cs.2) && actOf σ (.N m cs.2))) =
          (I.newAt cs.1 pos).map fun m => b2r (actOf τ (.A cs.2) && actOf τ (.N m cs.2)) := by
        apply List.map_congr_left
        intro m hm
        rw [actOf_congr (hs.hN cs hcs m (List.mem_filter.mp hm).1)]
      rw [hnew]
      cases hp' : presentAt cs.1 pos with
      | nil => rfl
      | cons p ps =>
        have hpm : p ∈ cs.1.defMuts := by
          have : p ∈ presentAt cs.1 pos := by rw [hp']; simp
          exact (List.mem_filter.mp this).1
        simp only
        rw [actOf_congr (hs.hK cs hcs p hpm)]
    · have hc' : I.hasCov cs.1 pos = false := by simpa using hc
      simp [hc']

end Aldy

namespace Aldy
open MinorInst

theorem length_filter_filterMap {α β : Type} (f : α → Option β) (p : β → Bool) (q : α → Bool) (l : List α)
    (h : ∀ x ∈ l, (match f x with | some y => p y | none => false) = q x) :
    ((l.filterMap f).filter p).length = (l.filter q).length := by
  induction l with
  | nil => rfl
  | cons x xs ih =>
    have hx := h x (by simp)
    have ih' := ih (fun y hy => h y (List.mem_cons_of_mem _ hy))
    rw [List.filterMap_cons]
    cases hf : f x with
    | none =>
      rw [hf] at hx
      simp only at hx
      rw [List.filter_cons, ← hx]
      simpa using ih'
    | some y =>
      rw [hf] at hx
      simp only at hx
      rw [List.filter_cons, List.filter_cons, ← hx]
      by_cases hp : p y = true
      · simp only [hp, if_true, List.length_cons, ih']
      · have hp' : p y = false := by simpa using hp
        simp only [hp', Bool.false_eq_true, if_false, ih']

/-- **readout_refines_major** CHAIN CONSISTENCY (C10): the minor alleles reported for a feasible
point refine the major alleles of the major solution one to one - for every major allele of the
solution, exactly as many reported copies carry its name as the major solution has copies of it -/
theorem readout_refines_major (I : MinorInst) (σ : NVar → Rat) (h : I.build.Sat σ)
    (mc : String × Nat) (hmc : mc ∈ I.majorSol) :
    ((readOut I (actOf σ)).filter fun c => c.major == mc.1).length = mc.2 := by
  have h1 := minor_one_per_copy I σ h mc hmc
  unfold countOnesN at h1
  rw [← h1, List.filter_map, List.length_map, List.filter_filter]
  unfold readOut
  apply length_filter_filterMap
  intro cs _
  by_cases ha : actOf σ (.A cs.2) = true
  · have ha' : decide (σ (.A cs.2) = 1) = true := ha
    simp [ha, ha', Function.comp_def]
  · have ha0 : actOf σ (.A cs.2) = false := by simpa using ha
    have ha' : decide (σ (.A cs.2) = 1) = false := ha0
    simp [ha0, ha', Function.comp_def]

end Aldy
