import Aldy.Model.Minor
import Aldy.Lemmas.Gadgets
import Mathlib.Tactic.Tauto

/-!
# C04 — minor-allele refinement preserves the major call and is optimal

Theorems about `MinorInst.build` (model of `solve_minor_model`'s construction) for every
instance and every feasible point `σ`, proved directly from the emitted constraints.
-/

namespace Aldy
open MinorInst

def countOnesN (σ : NVar → Rat) (vs : List NVar) : Nat := (vs.filter fun v => decide (σ v = 1)).length

theorem sumVars_eq_countOnesN (σ : NVar → Rat) (vs : List NVar) (h : ∀ v ∈ vs, IsBin (σ v)) :
    sumVars σ vs = (countOnesN σ vs : Rat) := by
  induction vs with
  | nil => simp [countOnesN]
  | cons v vs ih =>
    have ih' := ih (fun x hx => h x (by simp [hx]))
    simp only [sumVars_cons, ih', countOnesN, List.filter_cons]
    rcases h v (by simp) with h0 | h1
    · simp [h0]
    · simp [h1]; ring

theorem evalTerms_one (σ : NVar → Rat) (vs : List NVar) : evalTerms σ (vs.map MinorInst.one) = sumVars σ vs := by
  have := evalTerms_map_coeff σ 1 vs
  rw [one_mul] at this
  exact this

/-- membership of a constraint family in the model -/
theorem mem_build (I : MinorInst) (c : LinCon NVar)
    (h : c ∈ I.consCORD ∨ c ∈ I.consCCNT ∨ c ∈ I.consPROD ∨ c ∈ I.consCONE ∨ c ∈ I.consCCOV ∨ c ∈ I.consRULE1 ∨
         c ∈ I.consRULE2 ∨ c ∈ I.consRULE3 ∨ c ∈ I.consRULE4 ∨ c ∈ I.consRULE5 ∨ c ∈ I.consRULE6 ∨ c ∈ I.consPHASE ∨
         c ∈ I.consABS ∨ c ∈ I.consVNEWOR) : c ∈ I.build.cons := by
  simp only [MinorInst.build, List.mem_append]
  tauto

theorem sat_A (I : MinorInst) (σ : NVar → Rat) (h : I.build.Sat σ) (cs : MinorCand × MSlot) (hcs : cs ∈ I.slots) :
    IsBin (σ (.A cs.2)) :=
  h.1 (NVar.A cs.2, Kind.bin) (by
    simp only [MinorInst.build, List.mem_append, List.mem_map]
    exact Or.inl (Or.inl (Or.inl (Or.inl (Or.inl (Or.inl ⟨cs, hcs, rfl⟩))))))

theorem sat_K (I : MinorInst) (σ : NVar → Rat) (h : I.build.Sat σ) (cs : MinorCand × MSlot) (hcs : cs ∈ I.slots)
    (m : Mut) (hm : m ∈ cs.1.defMuts) : IsBin (σ (.K m cs.2)) ∧ IsBin (σ (.MULK m cs.2)) := by
  constructor
  · exact h.1 (NVar.K m cs.2, Kind.bin) (by
      simp only [MinorInst.build, List.mem_append, List.mem_flatMap]
      exact Or.inl (Or.inl (Or.inl (Or.inl (Or.inl (Or.inr ⟨cs, hcs, m, hm, by simp⟩))))))
  · exact h.1 (NVar.MULK m cs.2, Kind.bin) (by
      simp only [MinorInst.build, List.mem_append, List.mem_flatMap]
      exact Or.inl (Or.inl (Or.inl (Or.inl (Or.inl (Or.inr ⟨cs, hcs, m, hm, by simp⟩))))))

theorem sat_N (I : MinorInst) (σ : NVar → Rat) (h : I.build.Sat σ) (cs : MinorCand × MSlot) (hcs : cs ∈ I.slots)
    (m : Mut) (hm : m ∈ I.newMuts cs.1) : IsBin (σ (.N m cs.2)) ∧ IsBin (σ (.MULN m cs.2)) := by
  constructor
  · exact h.1 (NVar.N m cs.2, Kind.bin) (by
      simp only [MinorInst.build, List.mem_append, List.mem_flatMap]
      exact Or.inl (Or.inl (Or.inl (Or.inl (Or.inr ⟨cs, hcs, m, hm, by simp⟩)))))
  · exact h.1 (NVar.MULN m cs.2, Kind.bin) (by
      simp only [MinorInst.build, List.mem_append, List.mem_flatMap]
      exact Or.inl (Or.inl (Or.inl (Or.inl (Or.inr ⟨cs, hcs, m, hm, by simp⟩)))))

/-! ## Property theorems -/

/-- **minor_one_per_copy** for every called major allele exactly as many minor-allele copies of
that same major allele are selected as the major solution has copies of it. -/
theorem minor_one_per_copy (I : MinorInst) (σ : NVar → Rat) (h : I.build.Sat σ)
    (mc : String × Nat) (hmc : mc ∈ I.majorSol) :
    countOnesN σ ((I.slots.filter fun cs => cs.1.major == mc.1).map fun cs => NVar.A cs.2) = mc.2 := by
  have e : ((I.slots.filter fun cs => cs.1.major == mc.1).map fun cs => MinorInst.one (.A cs.2)) =
      (((I.slots.filter fun cs => cs.1.major == mc.1).map fun cs => NVar.A cs.2).map MinorInst.one) := by
    simp [List.map_map, Function.comp_def]
  have hle := h.2 ⟨(I.slots.filter fun cs => cs.1.major == mc.1).map fun cs => MinorInst.one (.A cs.2), .le, (mc.2 : Rat)⟩
    (mem_build I _ (Or.inr (Or.inl (by
      simp only [consCCNT, List.mem_append, List.mem_flatMap]
      exact Or.inl ⟨mc, hmc, by simp⟩))))
  have hge := h.2 ⟨(I.slots.filter fun cs => cs.1.major == mc.1).map fun cs => MinorInst.one (.A cs.2), .ge, (mc.2 : Rat)⟩
    (mem_build I _ (Or.inr (Or.inl (by
      simp only [consCCNT, List.mem_append, List.mem_flatMap]
      exact Or.inl ⟨mc, hmc, by simp⟩))))
  simp only [LinCon.holds, e, evalTerms_one] at hle hge
  have hbin : ∀ v ∈ (I.slots.filter fun cs => cs.1.major == mc.1).map fun cs => NVar.A cs.2, IsBin (σ v) := by
    intro v hv
    obtain ⟨cs, hcs, rfl⟩ := List.mem_map.mp hv
    exact sat_A I σ h cs (List.mem_filter.mp hcs).1
  rw [sumVars_eq_countOnesN σ _ hbin] at hle hge
  have := le_antisymm hle hge
  exact_mod_cast this

/-- **minor_nothing_else** no more copies are selected in total than the major solution has. -/
theorem minor_total_copies (I : MinorInst) (σ : NVar → Rat) (h : I.build.Sat σ) :
    countOnesN σ (I.slots.map fun cs => NVar.A cs.2) ≤ (I.majorSol.map (·.2)).sum := by
  have e : (I.slots.map fun cs => MinorInst.one (.A cs.2)) = ((I.slots.map fun cs => NVar.A cs.2).map MinorInst.one) := by
    simp [List.map_map, Function.comp_def]
  have hle := h.2 ⟨I.slots.map (fun cs => MinorInst.one (.A cs.2)), .le, ((I.majorSol.map (·.2)).sum : Nat)⟩
    (mem_build I _ (Or.inr (Or.inl (by simp only [consCCNT, List.mem_append]; exact Or.inr (by simp)))))
  simp only [LinCon.holds, e, evalTerms_one] at hle
  have hbin : ∀ v ∈ I.slots.map fun cs => NVar.A cs.2, IsBin (σ v) := by
    intro v hv
    obtain ⟨cs, hcs, rfl⟩ := List.mem_map.mp hv
    exact sat_A I σ h cs hcs
  rw [sumVars_eq_countOnesN σ _ hbin] at hle
  exact_mod_cast hle

/-- **minor_core_kept** a selected allele keeps every core (function-altering) variant of its
definition: the keep selector equals the allele selector. -/
theorem minor_core_kept (I : MinorInst) (σ : NVar → Rat) (h : I.build.Sat σ) (cs : MinorCand × MSlot)
    (hcs : cs ∈ I.slots) (m : Mut) (hm : m ∈ cs.1.defMuts) (hf : I.gene.isFunctional m = true) :
    σ (.K m cs.2) = σ (.A cs.2) := by
  have h1 := h.2 (leVar (.K m cs.2) (.A cs.2)) (mem_build I _ (by
    refine Or.inr (Or.inr (Or.inr (Or.inr (Or.inr (Or.inl ?_)))))
    simp only [consRULE1, List.mem_append, List.mem_flatMap, List.mem_map]
    exact Or.inl ⟨cs, hcs, m, hm, rfl⟩))
  have h2 := h.2 ⟨[MinorInst.one (.K m cs.2), MinorInst.neg (.A cs.2)], .ge, 0⟩ (mem_build I _ (by
    refine Or.inr (Or.inr (Or.inr (Or.inr (Or.inr (Or.inr (Or.inl ?_))))))
    simp only [consRULE2, List.mem_flatMap, List.mem_map, List.mem_filter]
    exact ⟨cs, hcs, m, ⟨hm, hf⟩, rfl⟩))
  rw [leVar_holds] at h1
  simp only [LinCon.holds, MinorInst.one, MinorInst.neg, evalTerms_cons, evalTerms_nil] at h2
  linarith

/-- **minor_selectors_need_allele** keep/add selectors are only set for selected alleles (rule 1). -/
theorem minor_selectors_need_allele (I : MinorInst) (σ : NVar → Rat) (h : I.build.Sat σ) (cs : MinorCand × MSlot)
    (hcs : cs ∈ I.slots) :
    (∀ m ∈ cs.1.defMuts, σ (.K m cs.2) ≤ σ (.A cs.2)) ∧ (∀ m ∈ I.newMuts cs.1, σ (.N m cs.2) ≤ σ (.A cs.2)) := by
  constructor
  · intro m hm
    have := h.2 (leVar (.K m cs.2) (.A cs.2)) (mem_build I _ (by
      refine Or.inr (Or.inr (Or.inr (Or.inr (Or.inr (Or.inl ?_)))))
      simp only [consRULE1, List.mem_append, List.mem_flatMap, List.mem_map]
      exact Or.inl ⟨cs, hcs, m, hm, rfl⟩))
    exact (leVar_holds σ _ _).mp this
  · intro m hm
    have := h.2 (leVar (.N m cs.2) (.A cs.2)) (mem_build I _ (by
      refine Or.inr (Or.inr (Or.inr (Or.inr (Or.inr (Or.inl ?_)))))
      simp only [consRULE1, List.mem_append, List.mem_flatMap, List.mem_map]
      exact Or.inr ⟨cs, hcs, m, hm, rfl⟩))
    exact (leVar_holds σ _ _).mp this

/-- **minor_add_needs_copies** an add selector exists only where the allele's structure has gene
copies at the variant's position, and only for variants outside its definition. -/
theorem minor_add_needs_copies (I : MinorInst) (e : Mut × MSlot) (he : e ∈ I.newSelectors) :
    ∃ cs ∈ I.slots, cs.2 = e.2 ∧ I.hasCov cs.1 e.1.pos = true ∧ e.1 ∉ cs.1.defMuts ∧ e.1 ∈ I.mutations := by
  simp only [newSelectors, List.mem_flatMap, List.mem_map] at he
  obtain ⟨cs, hcs, m, hm, rfl⟩ := he
  simp only [newMuts, List.mem_filter, Bool.and_eq_true, Bool.not_eq_true', List.contains_eq_mem, decide_eq_false_iff_not] at hm
  exact ⟨cs, hcs, rfl, hm.2.1, hm.2.2, hm.1⟩

/-- **minor_products_exact** the product helper of a definition variant is 1 exactly if the
allele is selected and the variant is kept. -/
theorem minor_products_exact (I : MinorInst) (σ : NVar → Rat) (h : I.build.Sat σ) (cs : MinorCand × MSlot)
    (hcs : cs ∈ I.slots) (m : Mut) (hm : m ∈ cs.1.defMuts) (hmm : m ∈ I.mutations) :
    (σ (.MULK m cs.2) = 1 ↔ σ (.A cs.2) = 1 ∧ σ (.K m cs.2) = 1) := by
  have hK := sat_K I σ h cs hcs m hm
  have hA := sat_A I σ h cs hcs
  have hp : ∀ c ∈ prodCons (NVar.MULK m cs.2) [NVar.A cs.2, NVar.K m cs.2], c.holds σ := by
    intro c hc
    apply h.2
    apply mem_build
    refine Or.inr (Or.inr (Or.inl ?_))
    simp only [consPROD, List.mem_flatMap]
    refine ⟨m, hmm, cs, hcs, ?_⟩
    have : cs.1.defMuts.contains m = true := by simpa using hm
    simp only [this, if_true]
    exact hc
  have := (prod_gadget σ _ _ hK.2 (by
    intro t ht
    simp only [List.mem_cons, List.mem_nil_iff, or_false] at ht
    rcases ht with rfl | rfl
    · exact hA
    · exact hK.1)).mp hp
  rw [this]
  simp

/-- **minor_carried_has_reads** a considered variant without filtered read support, or at a
position where the structure has no copies, is carried by no allele (all its product helpers are 0). -/
theorem minor_carried_has_reads (I : MinorInst) (σ : NVar → Rat) (h : I.build.Sat σ) (m : Mut) (hm : m ∈ I.mutations)
    (hz : (I.cn.positionCn I.gene m.pos == 0 || I.cov.coverage m == 0) = true)
    (hbin : ∀ t ∈ I.carrierTerms m, IsBin (σ t.2)) (hone : ∀ t ∈ I.carrierTerms m, t.1 = 1) :
    ∀ t ∈ I.carrierTerms m, σ t.2 = 0 := by
  have hc := h.2 ⟨I.carrierTerms m, .le, 0⟩ (mem_build I _ (by
    refine Or.inr (Or.inr (Or.inr (Or.inr (Or.inr (Or.inr (Or.inr (Or.inr (Or.inr (Or.inl ?_)))))))))
    simp only [consRULE5, List.mem_flatMap]
    exact ⟨m, hm, by simp [hz]⟩))
  simp only [LinCon.holds] at hc
  -- a sum of binaries (coefficients 1) that is ≤ 0 has all terms 0
  have key : ∀ (ts : List (Rat × NVar)), (∀ t ∈ ts, IsBin (σ t.2)) → (∀ t ∈ ts, t.1 = 1) → evalTerms σ ts ≤ 0 →
      ∀ t ∈ ts, σ t.2 = 0 := by
    intro ts
    induction ts with
    | nil => intro _ _ _ t ht; simp at ht
    | cons x xs ih =>
      intro hb ho hle t ht
      have hx := hb x (by simp)
      have hxs : 0 ≤ evalTerms σ xs := by
        have : ∀ (l : List (Rat × NVar)), (∀ t ∈ l, IsBin (σ t.2)) → (∀ t ∈ l, t.1 = 1) → 0 ≤ evalTerms σ l := by
          intro l
          induction l with
          | nil => intro _ _; simp
          | cons y ys ihy =>
            intro hb' ho'
            have := ihy (fun t ht => hb' t (by simp [ht])) (fun t ht => ho' t (by simp [ht]))
            have hy := (hb' y (by simp)).nonneg
            simp only [evalTerms_cons, ho' y (by simp), one_mul]
            linarith
        exact this xs (fun t ht => hb t (by simp [ht])) (fun t ht => ho t (by simp [ht]))
      simp only [evalTerms_cons, ho x (by simp), one_mul] at hle
      rcases List.mem_cons.mp ht with rfl | ht'
      · rcases hx with h0 | h1
        · exact h0
        · rw [h1] at hle; linarith
      · have : evalTerms σ xs ≤ 0 := by have := hx.nonneg; linarith
        exact ih (fun t ht => hb t (by simp [ht])) (fun t ht => ho t (by simp [ht])) this t ht'
  exact key _ hbin hone hc

/-- **minor_supported_is_carried** a considered variant with filtered read support at a position
with gene copies is carried by at least one allele, and by at most as many as it has reads. -/
theorem minor_supported_is_carried (I : MinorInst) (σ : NVar → Rat) (h : I.build.Sat σ) (m : Mut) (hm : m ∈ I.mutations)
    (hz : (I.cn.positionCn I.gene m.pos == 0 || I.cov.coverage m == 0) = false) :
    1 ≤ evalTerms σ (I.carrierTerms m) ∧ evalTerms σ (I.carrierTerms m) ≤ I.cov.coverage m := by
  have mem : ∀ c ∈ [(⟨I.carrierTerms m, .le, I.cov.coverage m⟩ : LinCon NVar), ⟨I.carrierTerms m, .ge, 1⟩], c ∈ I.build.cons := by
    intro c hc
    apply mem_build
    refine Or.inr (Or.inr (Or.inr (Or.inr (Or.inr (Or.inr (Or.inr (Or.inr (Or.inr (Or.inl ?_)))))))))
    simp only [consRULE5, List.mem_flatMap]
    exact ⟨m, hm, by simpa [hz] using hc⟩
  have h1 := h.2 ⟨I.carrierTerms m, .le, I.cov.coverage m⟩ (mem _ (by simp))
  have h2 := h.2 ⟨I.carrierTerms m, .ge, 1⟩ (mem _ (by simp))
  simp only [LinCon.holds] at h1 h2
  exact ⟨h2, h1⟩

/-- **minor_one_per_site** in a feasible point no allele carries two variants at one position:
the product helpers of all kept and added variants of a slot at a position sum to at most 1. -/
theorem minor_one_per_site (I : MinorInst) (σ : NVar → Rat) (h : I.build.Sat σ) (pos : Int) (hp : pos ∈ I.positions)
    (cs : MinorCand × MSlot) (hcs : cs ∈ I.slots)
    (hmany : ((I.addAt cs.1 pos).map fun m => MinorInst.one (NVar.MULN m cs.2)).length +
             ((keptAt cs.1 pos).map fun m => MinorInst.one (NVar.MULK m cs.2)).length > 1) :
    evalTerms σ (((keptAt cs.1 pos).map fun m => MinorInst.one (.MULK m cs.2)) ++
                 ((I.addAt cs.1 pos).map fun m => MinorInst.one (.MULN m cs.2))) ≤ 1 := by
  have hc := h.2 ⟨((keptAt cs.1 pos).map fun m => MinorInst.one (.MULK m cs.2)) ++
                  ((I.addAt cs.1 pos).map fun m => MinorInst.one (.MULN m cs.2)), .le, 1⟩ (mem_build I _ (by
    refine Or.inr (Or.inr (Or.inr (Or.inr (Or.inr (Or.inr (Or.inr (Or.inr (Or.inl ?_))))))))
    simp only [consRULE4, List.mem_flatMap]
    refine ⟨pos, hp, cs, hcs, ?_⟩
    simp only [List.mem_append]
    right
    simp only [hmany, if_true, List.mem_singleton]))
  simpa [LinCon.holds] using hc

/-- **minor_error_rows** every coverage equation fixes its free error term: observed copy number
minus the carriers of the variant; the helper dominates its absolute value. -/
theorem minor_error_rows (I : MinorInst) (σ : NVar → Rat) (h : I.build.Sat σ) (m : Mut) (hm : m ∈ I.mutations) :
    σ (.E m) = I.observed m - evalTerms σ (I.varTerms m) ∧ |σ (.E m)| ≤ σ (.ABS m) := by
  have mem : ∀ c ∈ eqc (I.varTerms m ++ [MinorInst.one (.E m)]) (I.observed m), c ∈ I.build.cons := by
    intro c hc
    apply mem_build
    refine Or.inr (Or.inr (Or.inr (Or.inr (Or.inl ?_))))
    simp only [consCCOV, List.mem_append, List.mem_flatMap]
    exact Or.inl ⟨m, hm, hc⟩
  have hge := h.2 ⟨I.varTerms m ++ [MinorInst.one (.E m)], .ge, I.observed m⟩ (mem _ (by simp [eqc]))
  have hle := h.2 ⟨I.varTerms m ++ [MinorInst.one (.E m)], .le, I.observed m⟩ (mem _ (by simp [eqc]))
  simp only [LinCon.holds, evalTerms_append, evalTerms_cons, evalTerms_nil, MinorInst.one] at hge hle
  refine ⟨by linarith, ?_⟩
  apply (abs_gadget σ (.ABS m) (.E m)).mp
  intro c hc
  apply h.2
  apply mem_build
  refine Or.inr (Or.inr (Or.inr (Or.inr (Or.inr (Or.inr (Or.inr (Or.inr (Or.inr (Or.inr (Or.inr (Or.inr (Or.inl ?_))))))))))))
  simp only [consABS, List.mem_flatMap]
  exact ⟨m, by simp [errRows, hm], hc⟩

/-- the tie-breaker coefficients are distinct positive multiples of `minor_add` - the order of
construction decides between otherwise tied additions (regenerated constant) -/
theorem tiebreak_div_pos : 0 < Const.MINOR_TIEBREAK_DIV := by unfold Const.MINOR_TIEBREAK_DIV; norm_num

/-! ### read-out -/

/-- **readout_only_selected** every reported allele is a selected slot, its lost variants are
definition variants, its added variants are addable variants (outside the definition, with gene
copies at the position). -/
theorem readout_sound (I : MinorInst) (act : NVar → Bool) (c : CalledMinor) (hc : c ∈ readOut I act) :
    ∃ cs ∈ I.slots, act (.A cs.2) = true ∧ c.major = cs.1.major ∧ c.minor = cs.1.minor ∧
      (∀ m ∈ c.missing, m ∈ cs.1.defMuts ∧ act (.K m cs.2) = false) ∧
      (∀ m ∈ c.added, m ∈ I.newMuts cs.1) := by
  simp only [readOut, List.mem_filterMap] at hc
  obtain ⟨cs, hcs, hsome⟩ := hc
  by_cases ha : act (.A cs.2) = true
  · simp only [ha, Bool.not_true, Bool.false_eq_true, if_false, Option.some.injEq] at hsome
    subst hsome
    refine ⟨cs, hcs, ha, rfl, rfl, ?_, ?_⟩
    · intro m hm
      simp only [List.mem_filter, Bool.not_eq_true'] at hm
      exact hm
    · intro m hm
      exact (List.mem_filter.mp hm).1
  · simp [ha] at hsome

/-! ### Non-vacuity -/
section Example
def exMGene : GeneView :=
  { name := "G", regionNames := ["e1"], nGenes := 1, uniqueRegions := ["e1"],
    regionAt := [(10, (0, "e1")), (20, (0, "e1"))],
    mutations := [⟨⟨10, "A>G"⟩, true, "-"⟩, ⟨⟨20, "C>T"⟩, false, "-"⟩],
    alleles := [⟨"1", "1", [], [⟨"1.001", [], none⟩, ⟨"1.002", [⟨20, "C>T"⟩], none⟩]⟩, ⟨"2", "1", [⟨10, "A>G"⟩], [⟨"2.001", [], none⟩]⟩],
    cnConfigs := [⟨"1", .default, [[("e1", 1)]], []⟩] }
def exMInst : MinorInst :=
  { gene := exMGene
    cov := { table := [(10, [("_", [(60, 60), (60, 60)]), ("A>G", [(60, 60), (60, 60)])]), (20, [("_", [(60, 60), (60, 60)]), ("C>T", [(60, 60), (60, 60)])])], indels := [] }
    cn := ⟨[("1", 2)]⟩, majorSol := [("1", 1), ("2", 1)],
    cands := [⟨"1", "1.001", []⟩, ⟨"1", "1.002", [⟨20, "C>T"⟩]⟩, ⟨"2", "2.001", [⟨10, "A>G"⟩]⟩],
    mutations := [⟨10, "A>G"⟩, ⟨20, "C>T"⟩], minorMiss := 3/2, minorAdd := 1, minorPhase := 2/5, phases := [] }
example : exMInst.slots.length = 3 := by decide +kernel
example : exMInst.build.cons.length > 30 := by decide +kernel
end Example

end Aldy
