import Aldy.Model.Params
import Mathlib.Data.Nat.Digits.Defs
import Mathlib.Tactic.IntervalCases

/-!
# C18 — model parameters take the values the user gave, through every route

Theorems about `update` / `convert` (model of `Profile.update`) for every parameter state,
every parameter name and every value.
-/

namespace Aldy
open Const

/-! ## Booleans -/

theorem strip_no_space (cs : List Char) (h : ∀ c ∈ cs, isSpace c = false) : strip cs = cs := by
  have hl : ∀ l : List Char, (∀ c ∈ l, isSpace c = false) → stripL l = l := by
    intro l hl
    cases l with
    | nil => rfl
    | cons c cs => simp [stripL, hl c (by simp)]
  unfold strip
  rw [hl cs h, hl cs.reverse (fun c hc => h c (List.mem_reverse.mp hc)), List.reverse_reverse]

/-- **update_bool_any_case** `true` / `false` in any letter case, and `1` / `0`, are accepted
with the documented meaning (casing = any list whose lower-casing is the word). -/
theorem update_bool_any_case (cs : List Char) (hsp : ∀ c ∈ cs, isSpace c = false) :
    (cs.map lowerChar = ['t', 'r', 'u', 'e'] → parseBoolChars cs = some true) ∧
    (cs.map lowerChar = ['f', 'a', 'l', 's', 'e'] → parseBoolChars cs = some false) ∧
    (cs = ['1'] → parseBoolChars cs = some true) ∧
    (cs = ['0'] → parseBoolChars cs = some false) := by
  refine ⟨?_, ?_, ?_, ?_⟩
  · intro h; simp [parseBoolChars, strip_no_space cs hsp, h]
  · intro h; simp [parseBoolChars, strip_no_space cs hsp, h]
  · intro h; subst h; decide
  · intro h; subst h; decide

/-- Anything else is rejected: the parser answers only on the four documented words. -/
theorem update_bool_malformed_rejected (cs : List Char) :
    parseBoolChars cs ≠ none →
      (strip cs).map lowerChar ∈ [['t', 'r', 'u', 'e'], ['1'], ['f', 'a', 'l', 's', 'e'], ['0']] := by
  unfold parseBoolChars
  intro h
  simp only at h
  split at h
  · rename_i h1; rcases h1 with h1 | h1 <;> simp [h1]
  · split at h
    · rename_i h2; rcases h2 with h2 | h2 <;> simp [h2]
    · exact absurd rfl h

/-- **update_bool_native** real booleans and the integers 1/0 keep their value. -/
theorem update_bool_native (cur b : Bool) :
    convert (.bool cur) (.bool b) = some (.bool b) ∧
    convert (.bool cur) (.int 1) = some (.bool true) ∧
    convert (.bool cur) (.int 0) = some (.bool false) := by
  refine ⟨rfl, ?_, ?_⟩ <;> simp [convert]

/-! ## Numbers -/

def digitChar (d : Nat) : Char := Char.ofNat (48 + d)

theorem digitChar_ok (d : Nat) (h : d < 10) : isDigit (digitChar d) = true ∧ digitVal (digitChar d) = d ∧ digitChar d ≠ '_' := by
  interval_cases d <;> decide

theorem digitGroup_render (ds : List Nat) (h : ∀ d ∈ ds, d < 10) :
    digitGroup (ds.map digitChar) = some ds := by
  induction ds with
  | nil => rfl
  | cons d ds ih =>
    obtain ⟨h1, h2, h3⟩ := digitChar_ok d (h d (by simp))
    have ih' := ih (fun x hx => h x (by simp [hx]))
    cases ds with
    | nil => unfold digitGroup; simp [h1, h2]
    | cons e es =>
      obtain ⟨g1, g2, g3⟩ := digitChar_ok e (h e (by simp))
      simp only [List.map_cons] at ih' ⊢
      rw [digitGroup.eq_def]
      split
      · simp_all
      · rename_i heq; simp at heq
      · rename_i c d' rest heq
        simp only [List.cons.injEq] at heq
        exact absurd heq.2.1 g3
      · rename_i c rest hne1 hne2 heq
        simp only [List.cons.injEq] at heq
        obtain ⟨rfl, rfl⟩ := heq
        simp [h1, h2, ih']

theorem natOfDigits_eq_ofDigits (ds : List Nat) : natOfDigits ds = Nat.ofDigits 10 ds.reverse := by
  unfold natOfDigits
  have : ∀ acc, ds.foldl (fun acc d => acc * 10 + d) acc = acc * 10 ^ ds.length + Nat.ofDigits 10 ds.reverse := by
    induction ds with
    | nil => intro acc; simp
    | cons d ds ih =>
      intro acc
      simp only [List.foldl_cons, List.reverse_cons, ih, List.length_cons]
      rw [Nat.ofDigits_append, Nat.ofDigits_singleton, List.length_reverse]
      ring
  simpa using this 0

/-- decimal rendering of a natural number, most significant digit first (`0` for zero) -/
def renderNat (n : Nat) : List Char :=
  if n = 0 then ['0'] else ((Nat.digits 10 n).reverse).map digitChar

/-- **update_int_exact** an integer written in decimal (optionally signed) is parsed to exactly
that integer. -/
theorem update_int_exact (n : Nat) :
    parseIntChars (renderNat n) = some (n : Int) ∧
    parseIntChars ('-' :: renderNat n) = some (-(n : Int)) ∧
    parseIntChars ('+' :: renderNat n) = some (n : Int) := by
  have hns : ∀ c ∈ renderNat n, isSpace c = false := by
    intro c hc
    unfold renderNat at hc
    split at hc
    · simp at hc; subst hc; decide
    · obtain ⟨d, hd, rfl⟩ := List.mem_map.mp hc
      have : d < 10 := Nat.digits_lt_base (by norm_num) (List.mem_reverse.mp hd)
      interval_cases d <;> decide
  have hdg : digitGroup (renderNat n) = some (if n = 0 then [0] else (Nat.digits 10 n).reverse) := by
    unfold renderNat
    split
    · rfl
    · exact digitGroup_render _ (fun d hd => Nat.digits_lt_base (by norm_num) (List.mem_reverse.mp hd))
  have hval : natOfDigits (if n = 0 then [0] else (Nat.digits 10 n).reverse) = n := by
    split
    · subst_vars; rfl
    · rw [natOfDigits_eq_ofDigits, List.reverse_reverse, Nat.ofDigits_digits]
  have hne : (renderNat n).isEmpty = false := by
    unfold renderNat; split
    · rfl
    · rename_i h
      have : Nat.digits 10 n ≠ [] := Nat.digits_ne_nil_iff_ne_zero.mpr h
      cases hd : (Nat.digits 10 n).reverse with
      | nil => simp at hd; exact absurd hd this
      | cons a as => simp
  have hfirst : ∀ c ∈ (renderNat n).head?, c ≠ '-' ∧ c ≠ '+' := by
    intro c hc
    unfold renderNat at hc
    split at hc
    · simp at hc; subst hc; decide
    · rw [List.head?_map] at hc
      simp only [Option.mem_def, Option.map_eq_some_iff] at hc
      obtain ⟨d, hd, rfl⟩ := hc
      have : d < 10 := Nat.digits_lt_base (by norm_num) (List.mem_reverse.mp (List.mem_of_mem_head? hd))
      interval_cases d <;> decide
  have split0 : splitSign (renderNat n) = (false, renderNat n) := by
    cases h : renderNat n with
    | nil => rfl
    | cons c cs =>
      have := hfirst c (by simp [h])
      unfold splitSign
      split
      · rename_i heq; simp at heq; exact absurd heq.1 this.1
      · rename_i heq; simp at heq; exact absurd heq.1 this.2
      · rfl
  refine ⟨?_, ?_, ?_⟩
  · unfold parseIntChars
    rw [strip_no_space _ hns, split0]
    simp [hne, hdg, hval]
  · have hns' : ∀ c ∈ '-' :: renderNat n, isSpace c = false := by
      intro c hc; rcases List.mem_cons.mp hc with rfl | hc
      · decide
      · exact hns c hc
    unfold parseIntChars
    rw [strip_no_space _ hns']
    simp [splitSign, hne, hdg, hval]
  · have hns' : ∀ c ∈ '+' :: renderNat n, isSpace c = false := by
      intro c hc; rcases List.mem_cons.mp hc with rfl | hc
      · decide
      · exact hns c hc
    unfold parseIntChars
    rw [strip_no_space _ hns']
    simp [splitSign, hne, hdg, hval]

/-- **update_numeric_native** native numbers keep their value under the parameter's type. -/
theorem update_numeric_native (c : Int) (q r : Rat) (n : Int) :
    convert (.int c) (.int n) = some (.int n) ∧
    convert (.float q) (.float r) = some (.float r) ∧
    convert (.float q) (.int n) = some (.float n) := ⟨rfl, rfl, rfl⟩

/-! ## Update as a whole -/

/-- **update_unknown_ignored** a name that is not a parameter changes nothing and raises nothing. -/
theorem update_unknown_ignored (st : PState) (n : String) (v : PyVal) (rest : List (String × PyVal))
    (h : st.lookup n = none) : update st ((n, v) :: rest) = update st rest := by
  rw [update]
  by_cases hc : (v == PyVal.none || n == "cn_solution") = true
  · simp [hc]
  · simp [hc, h]

/-- **update_malformed_rejected** a value that cannot be converted to the parameter's type
ends the update with an error naming the parameter. -/
theorem update_malformed_rejected (st : PState) (n : String) (v : PyVal) (rest : List (String × PyVal))
    (cur : PVal) (h : st.lookup n = some cur) (hv : v ≠ .none) (hn : n ≠ "cn_solution")
    (hbad : convert cur v = none) : update st ((n, v) :: rest) = .error n := by
  rw [update]
  have : (v == PyVal.none || n == "cn_solution") = false := by simp [hv, hn]
  simp [this, h, hbad]

/-- **update_none_skipped** `None` never changes a parameter. -/
theorem update_none_skipped (st : PState) (n : String) (rest : List (String × PyVal)) :
    update st ((n, .none) :: rest) = update st rest := by
  rw [update]; simp

theorem lookup_setParam (st : PState) (n : String) (v : PVal) (h : (st.lookup n).isSome) :
    (setParam st n v).lookup n = some v := by
  induction st with
  | nil => simp at h
  | cons e es ih =>
    unfold setParam
    simp only [List.map_cons]
    by_cases he : e.1 == n
    · have hen : e.1 = n := by simpa using he
      simp only [he, if_true]
      rw [List.lookup_cons]; simp
    · have he' : (e.1 == n) = false := by simpa using he
      have hne : (n == e.1) = false := by
        rw [Bool.eq_false_iff]; intro hh
        exact he (beq_iff_eq.mpr (beq_iff_eq.mp hh).symm)
      simp only [he', Bool.false_eq_true, if_false]
      rw [List.lookup_cons, hne]
      rw [List.lookup_cons, hne] at h
      exact ih h

/-- **update_takes_value** a well-formed value for a known parameter is stored, converted to
the parameter's type, and reported in the returned dictionary. -/
theorem update_takes_value (st : PState) (n : String) (v : PyVal) (cur nv : PVal)
    (h : st.lookup n = some cur) (hv : v ≠ .none) (hn : n ≠ "cn_solution") (hc : convert cur v = some nv) :
    update st [(n, v)] = .ok (setParam st n nv, [(n, nv)]) ∧ (setParam st n nv).lookup n = some nv := by
  constructor
  · rw [update]
    have : (v == PyVal.none || n == "cn_solution") = false := by simp [hv, hn]
    simp [this, h, hc, update]
  · exact lookup_setParam st n nv (by simp [h])

/-- values have the type of their parameter -/
def sameType : PVal → PVal → Bool
  | .bool _, .bool _ => true
  | .int _, .int _ => true
  | .float _, .float _ => true
  | .str _, .str _ => true
  | _, _ => false

/-- **options_roundtrip** a typed value written to the options section of a profile and read
back (YAML hands it over as a native value) converts to itself. -/
theorem options_roundtrip (cur nv : PVal) (h : sameType cur nv = true) :
    convert cur (toPy nv) = some nv := by
  cases cur <;> cases nv <;> simp_all [sameType, toPy, convert]

/-- `--param` items are split at the *first* `=`. -/
theorem splitParam_first_eq (k v : List Char) (hk : ∀ c ∈ k, c ≠ '=' ∧ c ≠ '-') :
    splitParam (String.ofList (k ++ '=' :: v)) = some (String.ofList k, String.ofList v) := by
  unfold splitParam
  have : ∀ k : List Char, (∀ c ∈ k, c ≠ '=') → splitAt1 (fun c => c == '=') (k ++ '=' :: v) = (k, some v) := by
    intro k hk
    induction k with
    | nil => simp [splitAt1]
    | cons c cs ih =>
      have hc : (c == '=') = false := by simpa using (hk c (by simp))
      simp [splitAt1, hc, ih (fun x hx => hk x (by simp [hx]))]
  simp only [String.toList_ofList, this k (fun c hc => (hk c hc).1)]
  congr 2
  have : k.map (fun c => if c == '-' then '_' else c) = k := by
    conv_rhs => rw [← List.map_id k]
    apply List.map_congr_left
    intro c hc
    have := (hk c hc).2
    simp [this]
  rw [this]

/-! ## A whole dictionary of parameters; the `Profile.load` route -/

theorem lookup_setParam_ne (st : PState) (n m : String) (v : PVal) (h : m ≠ n) :
    (setParam st n v).lookup m = st.lookup m := by
  induction st with
  | nil => rfl
  | cons e es ih =>
    unfold setParam at ih ⊢
    simp only [List.map_cons]
    by_cases he : e.1 == n
    · have hen : e.1 = n := by simpa using he
      have hm : (m == n) = false := by simpa using h
      have hm' : (m == e.1) = false := by rw [hen]; exact hm
      simp only [he, if_true]
      rw [List.lookup_cons, List.lookup_cons, hm, hm']
      exact ih
    · have he' : (e.1 == n) = false := by simpa using he
      simp only [he', Bool.false_eq_true, if_false]
      rw [List.lookup_cons, List.lookup_cons]
      cases m == e.1
      · exact ih
      · rfl

/-- updating other parameters leaves a parameter alone -/
theorem update_lookup_other (kw : List (String × PyVal)) (m : String) (hm : ∀ e ∈ kw, e.1 ≠ m) :
    ∀ (st st' : PState) (ps : List (String × PVal)), update st kw = .ok (st', ps) → st'.lookup m = st.lookup m := by
  induction kw with
  | nil =>
    intro st st' ps h
    simp only [update] at h
    cases h; rfl
  | cons e rest ih =>
    obtain ⟨k, w⟩ := e
    have hk : k ≠ m := hm (k, w) (by simp)
    have hrest : ∀ e ∈ rest, e.1 ≠ m := fun e he => hm e (by simp [he])
    intro st st' ps h
    rw [update] at h
    split at h
    · exact ih hrest st st' ps h
    · split at h
      · exact ih hrest st st' ps h
      · split at h
        · cases h
        · rename_i cur _ nv _
          split at h
          · rename_i st2 ps2 h2
            cases h
            rw [ih hrest _ _ _ h2]
            exact lookup_setParam_ne st k m nv (Ne.symm hk)
          · cases h

/-- **update_dict_takes_value** in an update with a whole dictionary (distinct names) that
succeeds, every known parameter given a well-formed value ends up with exactly that value in the
parameter's type - whatever else is in the dictionary and in whatever order. -/
theorem update_dict_takes_value (kw : List (String × PyVal)) (n : String) (v : PyVal) (cur nv : PVal)
    (hnd : (kw.map (·.1)).Nodup) (hmem : (n, v) ∈ kw) (hv : v ≠ .none) (hn : n ≠ "cn_solution")
    (hc : ∀ cur', sameType cur cur' = true → convert cur' v = some nv) (hsame : sameType cur nv = true) :
    ∀ (st st' : PState) (ps : List (String × PVal)), st.lookup n = some cur →
      update st kw = .ok (st', ps) → st'.lookup n = some nv := by
  induction kw with
  | nil => simp at hmem
  | cons e rest ih =>
    obtain ⟨k, w⟩ := e
    simp only [List.map_cons, List.nodup_cons] at hnd
    intro st st' ps hcur h
    by_cases hkn : k = n
    · subst hkn
      have hw : w = v := by
        rcases List.mem_cons.mp hmem with h1 | h1
        · cases h1; rfl
        · exact absurd (List.mem_map.mpr ⟨(k, v), h1, rfl⟩) hnd.1
      subst hw
      have hrest : ∀ e ∈ rest, e.1 ≠ k := by
        intro e he hek
        exact hnd.1 (List.mem_map.mpr ⟨e, he, hek⟩)
      rw [update] at h
      have hskip : (w == PyVal.none || k == "cn_solution") = false := by simp [hv, hn]
      have hconv : convert cur w = some nv := hc cur (by cases cur <;> simp_all [sameType])
      simp only [hskip, Bool.false_eq_true, if_false, hcur, hconv] at h
      split at h
      · rename_i st2 ps2 h2
        cases h
        rw [update_lookup_other rest k hrest _ _ _ h2]
        exact lookup_setParam st k nv (by simp [hcur])
      · cases h
    · have hmem' : (n, v) ∈ rest := by
        rcases List.mem_cons.mp hmem with h1 | h1
        · cases h1; exact absurd rfl hkn
        · exact h1
      rw [update] at h
      split at h
      · exact ih hnd.2 hmem' st st' ps hcur h
      · split at h
        · exact ih hnd.2 hmem' st st' ps hcur h
        · split at h
          · cases h
          · rename_i cur2 _ nv2 _
            split at h
            · rename_i st2 ps2 h2
              cases h
              refine ih hnd.2 hmem' _ _ _ ?_ h2
              rw [lookup_setParam_ne st k n nv2 (Ne.symm hkn)]
              exact hcur
            · cases h

theorem lookup_append_first {α : Type} (l1 l2 : List (String × α)) (k : String) :
    (l1 ++ l2).lookup k = match l1.lookup k with | some v => some v | none => l2.lookup k := by
  induction l1 with
  | nil => rfl
  | cons e es ih =>
    obtain ⟨a, b⟩ := e
    simp only [List.cons_append, List.lookup_cons]
    cases k == a
    · exact ih
    · rfl

/-- the entry `dict(options, **params)` has for a key of the options section -/
def mergeEntry (params : List (String × PyVal)) (e : String × PyVal) : String × PyVal :=
  match params.lookup e.1 with | some v => (e.1, v) | none => e

theorem mergeEntry_fst (params : List (String × PyVal)) (e : String × PyVal) : (mergeEntry params e).1 = e.1 := by
  unfold mergeEntry; cases params.lookup e.1 <;> rfl

theorem mergeOptions_eq (opts params : List (String × PyVal)) :
    mergeOptions opts params = opts.map (mergeEntry params) ++ params.filter fun e => !(opts.any fun o => o.1 == e.1) := rfl

theorem lookup_filter_drop (e : String × PyVal) (es ps : List (String × PyVal)) (n : String) (hk : (n == e.1) = false) :
    (ps.filter fun p => !((e :: es).any fun o => o.1 == p.1)).lookup n =
    (ps.filter fun p => !(es.any fun o => o.1 == p.1)).lookup n := by
  induction ps with
  | nil => rfl
  | cons p ps ihp =>
    obtain ⟨pk, pv⟩ := p
    simp only [List.filter_cons, List.any_cons]
    by_cases hpe : e.1 == pk
    · have : pk = e.1 := (beq_iff_eq.mp hpe).symm
      have hnp : (n == pk) = false := by rw [this]; exact hk
      simp only [hpe, Bool.true_or, Bool.not_true, Bool.false_eq_true, if_false]
      split
      · simp only [List.lookup_cons, hnp]; exact ihp
      · exact ihp
    · have hpe' : (e.1 == pk) = false := by simpa using hpe
      simp only [hpe', Bool.false_or]
      split
      · simp only [List.lookup_cons]
        cases n == pk
        · exact ihp
        · rfl
      · exact ihp

/-- **load_explicit_wins** an explicit parameter given to `Profile.load` overrides the options
section of the file: the merged dictionary carries the explicit value - also when it is `False`,
`0` or `0.0`. -/
theorem load_explicit_wins (opts params : List (String × PyVal)) (n : String) (v : PyVal)
    (h : params.lookup n = some v) : (mergeOptions opts params).lookup n = some v := by
  rw [mergeOptions_eq, lookup_append_first]
  induction opts with
  | nil =>
    have : (params.filter fun e => !(([] : List (String × PyVal)).any fun o => o.1 == e.1)) = params :=
      List.filter_eq_self.mpr (by simp)
    rw [this]
    simpa using h
  | cons e es ih =>
    obtain ⟨ek, ev⟩ := e
    have hme : mergeEntry params (ek, ev) = (ek, (mergeEntry params (ek, ev)).2) :=
      Prod.ext (mergeEntry_fst params (ek, ev)) rfl
    rw [List.map_cons, hme]
    simp only [List.lookup_cons]
    by_cases hk : n == ek
    · have hke : n = ek := by simpa using hk
      subst hke
      simp only [hk]
      unfold mergeEntry
      simp only [h]
    · have hk' : (n == ek) = false := by simpa using hk
      simp only [hk']
      rw [lookup_filter_drop (ek, ev) es params n hk']
      exact ih

theorem lookup_filter_none (opts params : List (String × PyVal)) (n : String) (h : params.lookup n = none) :
    (params.filter fun e => !(opts.any fun o => o.1 == e.1)).lookup n = none := by
  induction params with
  | nil => rfl
  | cons p ps ih =>
    obtain ⟨pk, pv⟩ := p
    simp only [List.lookup_cons] at h
    cases hnp : n == pk
    · rw [hnp] at h
      simp only [List.filter_cons]
      split
      · simp only [List.lookup_cons, hnp]; exact ih h
      · exact ih h
    · rw [hnp] at h; cases h

/-- **load_options_kept** a parameter the caller does not pass keeps the value of the options section. -/
theorem load_options_kept (opts params : List (String × PyVal)) (n : String)
    (h : params.lookup n = none) : (mergeOptions opts params).lookup n = opts.lookup n := by
  rw [mergeOptions_eq, lookup_append_first, lookup_filter_none opts params n h]
  induction opts with
  | nil => rfl
  | cons e es ih =>
    obtain ⟨ek, ev⟩ := e
    have hme : mergeEntry params (ek, ev) = (ek, (mergeEntry params (ek, ev)).2) :=
      Prod.ext (mergeEntry_fst params (ek, ev)) rfl
    rw [List.map_cons, hme]
    simp only [List.lookup_cons]
    by_cases hk : n == ek
    · have hke : n = ek := by simpa using hk
      subst hke
      simp only [hk]
      unfold mergeEntry
      simp only [h]
    · have hk' : (n == ek) = false := by simpa using hk
      simp only [hk']
      exact ih

theorem mem_of_lookup {α : Type} (l : List (String × α)) (k : String) (v : α) (h : l.lookup k = some v) : (k, v) ∈ l := by
  induction l with
  | nil => cases h
  | cons e es ih =>
    obtain ⟨a, b⟩ := e
    simp only [List.lookup_cons] at h
    cases hk : k == a
    · rw [hk] at h; exact List.mem_cons_of_mem _ (ih h)
    · rw [hk] at h
      have : k = a := by simpa using hk
      cases h; subst this; exact List.mem_cons_self

theorem mergeOptions_keys_nodup (opts params : List (String × PyVal))
    (ho : (opts.map (·.1)).Nodup) (hp : (params.map (·.1)).Nodup) :
    ((mergeOptions opts params).map (·.1)).Nodup := by
  rw [mergeOptions_eq, List.map_append, List.nodup_append]
  refine ⟨?_, ?_, ?_⟩
  · have : (opts.map (mergeEntry params)).map (·.1) = opts.map (·.1) := by
      rw [List.map_map]; apply List.map_congr_left; intro e _; exact mergeEntry_fst params e
    rw [this]; exact ho
  · exact (List.filter_sublist.map _).nodup hp
  · intro a ha b hb hab
    subst hab
    obtain ⟨e, he, rfl⟩ := List.mem_map.mp ha
    obtain ⟨o, ho', rfl⟩ := List.mem_map.mp he
    obtain ⟨p, hp', hpe⟩ := List.mem_map.mp hb
    have hpf := (List.mem_filter.mp hp').2
    rw [mergeEntry_fst] at hpe
    have : (opts.any fun o' => o'.1 == p.1) = true :=
      List.any_eq_true.mpr ⟨o, ho', by simp [hpe]⟩
    simp [this] at hpf

theorem setDefault_keys_nodup (d : List (String × PyVal)) (k : String) (v : PyVal) (h : (d.map (·.1)).Nodup) :
    ((setDefault d k v).map (·.1)).Nodup := by
  unfold setDefault
  split
  · exact h
  · rename_i hn
    rw [List.map_append, List.nodup_append]
    refine ⟨h, by simp, ?_⟩
    intro a ha b hb hab
    simp only [List.map_cons, List.map_nil, List.mem_singleton] at hb
    subst hab hb
    obtain ⟨e, he, hek⟩ := List.mem_map.mp ha
    exact hn (List.any_eq_true.mpr ⟨e, he, by simp [hek]⟩)

theorem setDefault_lookup (d : List (String × PyVal)) (k : String) (v x : PyVal) (n : String)
    (h : d.lookup n = some x) : (setDefault d k v).lookup n = some x := by
  unfold setDefault
  split
  · exact h
  · rw [lookup_append_first, h]

/-- **load_param_takes_value** the `Profile.load` route end to end: whatever the options section
of the profile file says, a known parameter passed explicitly with a well-formed value (`False`,
`0`, `0.0` included) has exactly that value, in the parameter's type, in the loaded profile. -/
theorem load_param_takes_value (opts params : List (String × PyVal)) (neutral : PyVal) (n : String) (v : PyVal)
    (cur nv : PVal) (ho : (opts.map (·.1)).Nodup) (hp : (params.map (·.1)).Nodup)
    (hgiven : params.lookup n = some v) (hv : v ≠ .none) (hn : n ≠ "cn_solution")
    (hcur : initState.lookup n = some cur)
    (hc : ∀ cur', sameType cur cur' = true → convert cur' v = some nv) (hsame : sameType cur nv = true)
    (st' : PState) (ps : List (String × PVal))
    (hok : update initState (loadOptions opts params neutral) = .ok (st', ps)) : st'.lookup n = some nv := by
  have hl : (loadOptions opts params neutral).lookup n = some v :=
    setDefault_lookup _ _ _ _ _ (load_explicit_wins opts params n v hgiven)
  have hnd : ((loadOptions opts params neutral).map (·.1)).Nodup :=
    setDefault_keys_nodup _ _ _ (mergeOptions_keys_nodup opts params ho hp)
  exact update_dict_takes_value _ n v cur nv hnd (mem_of_lookup _ _ _ hl) hv hn hc hsame initState st' ps hcur hok

example : mergeOptions [("phase", .bool true), ("gap", .float (1/10))] [("phase", .bool false), ("min_mapq", .int 0)] =
    [("phase", .bool false), ("gap", .float (1/10)), ("min_mapq", .int 0)] := by decide +kernel
example : (update initState (loadOptions [("phase", .bool true)] [("phase", .bool false)] (.float 1000))).toOption.map
    (fun r => r.1.lookup "phase") = some (some (.bool false)) := by decide +kernel

/-! ### Non-vacuity -/
example : (initState.lookup "phase") = some (.bool true) := by decide +kernel
example : update initState [("phase", .str "FALSE"), ("gap", .str "1e-1"), ("nope", .str "x")] =
    .ok (setParam (setParam initState "phase" (.bool false)) "gap" (.float (1/10)),
         [("phase", .bool false), ("gap", .float (1/10))]) := by decide +kernel
example : update initState [("min_quality", .str "1.5")] = .error "min_quality" := by decide +kernel

end Aldy
