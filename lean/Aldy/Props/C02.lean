import Aldy.Model.Major
import Aldy.Lemmas.Gadgets

/-!
# C02 — major star-allele calls are consistent, optimal and complete

Theorems about `MajorInst.build`, the model of `solve_major_model`'s construction, for
**every** instance (catalogue view, evidence table, structure, candidate alleles) and every
feasible point `σ`.  The correspondence `major_structure` checks on every run that the model
the real code hands to CBC *is* `MajorInst.build` of the same instance.
-/

namespace Aldy
open MajorInst

/-! ### membership lemmas (one per constraint family) -/

theorem MajorInst.sat_bin_slot {I : MajorInst} {σ : MVar → Rat} (h : I.build.Sat σ)
    {s : MajorA × Nat} (hs : s ∈ I.slots) : IsBin (σ (va s)) := by
  have := h.1 (va s, Kind.bin) (by
    simp only [MajorInst.build, List.mem_append, List.mem_map]
    exact Or.inl (Or.inl (Or.inl (Or.inl (Or.inl ⟨s, hs, rfl⟩)))))
  exact this

theorem MajorInst.sat_bin_N {I : MajorInst} {σ : MVar → Rat} (h : I.build.Sat σ)
    {m : Mut} (hm : m ∈ I.funcMuts) : IsBin (σ (.N m)) := by
  have := h.1 (MVar.N m, Kind.bin) (by
    simp only [MajorInst.build, List.mem_append, List.mem_map]
    exact Or.inl (Or.inl (Or.inl (Or.inr ⟨m, hm, rfl⟩))))
  exact this

theorem MajorInst.sat_bin_OR {I : MajorInst} {σ : MVar → Rat} (h : I.build.Sat σ)
    {m : Mut} (hm : m ∈ I.funcMuts) : IsBin (σ (.OR m)) ∧ IsBin (σ (.XOR m)) := by
  constructor
  · exact h.1 (MVar.OR m, Kind.bin) (by
      simp only [MajorInst.build, List.mem_append, List.mem_flatMap]
      exact Or.inl (Or.inl (Or.inr ⟨m, hm, by simp⟩)))
  · exact h.1 (MVar.XOR m, Kind.bin) (by
      simp only [MajorInst.build, List.mem_append, List.mem_flatMap]
      exact Or.inl (Or.inl (Or.inr ⟨m, hm, by simp⟩)))

theorem evalTerms_ones (σ : MVar → Rat) (vs : List MVar) :
    evalTerms σ (MajorInst.ones vs) = sumVars σ vs := by
  unfold MajorInst.ones
  rw [evalTerms_map_coeff]; ring

theorem eqCons_le_mem (t : List (Rat × MVar)) (r : Rat) : (⟨t, .le, r⟩ : LinCon MVar) ∈ eqCons t r := by
  simp [eqCons]
theorem eqCons_ge_mem (t : List (Rat × MVar)) (r : Rat) : (⟨t, .ge, r⟩ : LinCon MVar) ∈ eqCons t r := by
  simp [eqCons]

theorem list_sum_le_sum {α : Type} (l : List α) (f g : α → Rat) (h : ∀ x ∈ l, f x ≤ g x) :
    (l.map f).sum ≤ (l.map g).sum := by
  induction l with
  | nil => simp
  | cons x xs ih =>
    have h1 := h x (by simp)
    have h2 := ih (fun y hy => h y (by simp [hy]))
    simp only [List.map_cons, List.sum_cons]; linarith

/-- number of variables of a list that are 1 -/
def countOnes (σ : MVar → Rat) (vs : List MVar) : Nat := (vs.filter fun v => decide (σ v = 1)).length

theorem sumVars_eq_countOnes (σ : MVar → Rat) (vs : List MVar) (h : ∀ v ∈ vs, IsBin (σ v)) :
    sumVars σ vs = (countOnes σ vs : Rat) := by
  induction vs with
  | nil => simp [countOnes]
  | cons v vs ih =>
    have ih' := ih (fun x hx => h x (by simp [hx]))
    simp only [sumVars_cons, ih', countOnes, List.filter_cons]
    rcases h v (by simp) with h0 | h1
    · simp [h0]
    · simp [h1]; ring

/-! ## Property theorems -/

/-- **major_csat** every feasible point gives each structural configuration exactly as many
called allele copies as the structure has copies of it. -/
theorem major_csat (I : MajorInst) (σ : MVar → Rat) (h : I.build.Sat σ)
    (cc : String × Nat) (hcc : cc ∈ I.cn.solution) :
    countOnes σ ((I.slots.filter fun s => s.1.cnConfig == cc.1).map va) = cc.2 := by
  have hle := h.2 ⟨ones ((I.slots.filter fun s => s.1.cnConfig == cc.1).map va), .le, (cc.2 : Rat)⟩ (by
    simp only [MajorInst.build, List.mem_append]
    refine Or.inl (Or.inl (Or.inl (Or.inr ?_)))
    exact List.mem_flatMap.mpr ⟨cc, hcc, eqCons_le_mem _ _⟩)
  have hge := h.2 ⟨ones ((I.slots.filter fun s => s.1.cnConfig == cc.1).map va), .ge, (cc.2 : Rat)⟩ (by
    simp only [MajorInst.build, List.mem_append]
    refine Or.inl (Or.inl (Or.inl (Or.inr ?_)))
    exact List.mem_flatMap.mpr ⟨cc, hcc, eqCons_ge_mem _ _⟩)
  simp only [LinCon.holds, evalTerms_ones] at hle hge
  have hbin : ∀ v ∈ (I.slots.filter fun s => s.1.cnConfig == cc.1).map va, IsBin (σ v) := by
    intro v hv
    obtain ⟨s, hs, rfl⟩ := List.mem_map.mp hv
    exact I.sat_bin_slot h ((List.mem_filter.mp hs).1)
  rw [sumVars_eq_countOnes σ _ hbin] at hle hge
  have : (countOnes σ ((I.slots.filter fun s => s.1.cnConfig == cc.1).map va) : Rat) = (cc.2 : Rat) :=
    le_antisymm hle hge
  exact_mod_cast this

/-- **major_xor** every observed core variant is accounted for exactly once: it is flagged
novel iff no called allele copy carries it — never both, never neither. -/
theorem major_xor (I : MajorInst) (σ : MVar → Rat) (h : I.build.Sat σ)
    (m : Mut) (hm : m ∈ I.funcMuts) :
    (σ (.N m) = 1 ↔ ¬ ∃ s ∈ I.carriers m, σ (va s) = 1) ∧ (σ (.N m) = 0 ∨ σ (.N m) = 1) := by
  have hN := I.sat_bin_N h hm
  obtain ⟨hO, hX⟩ := I.sat_bin_OR h hm
  have hcar : ∀ v ∈ (I.carriers m).map va, IsBin (σ v) := by
    intro v hv
    obtain ⟨s, hs, rfl⟩ := List.mem_map.mp hv
    exact I.sat_bin_slot h ((List.mem_filter.mp hs).1)
  have hor : ∀ c ∈ orCons (MVar.OR m) ((I.carriers m).map va), c.holds σ := by
    intro c hc
    apply h.2
    simp only [MajorInst.build, List.mem_append]
    refine Or.inl (Or.inl (Or.inr ?_))
    exact List.mem_flatMap.mpr ⟨m, hm, List.mem_append_left _ hc⟩
  have hxor : ∀ c ∈ xorCons (MVar.XOR m) (MVar.N m) (MVar.OR m), c.holds σ := by
    intro c hc
    apply h.2
    simp only [MajorInst.build, List.mem_append]
    refine Or.inl (Or.inl (Or.inr ?_))
    exact List.mem_flatMap.mpr ⟨m, hm, List.mem_append_right _ hc⟩
  have e1 := (or_gadget σ _ _ hO hcar).mp hor
  have e2 := (xor_gadget σ _ _ _ hX hN hO).mp hxor
  refine ⟨?_, hN⟩
  constructor
  · intro hn1 hex
    obtain ⟨s, hs, hs1⟩ := hex
    have : σ (MVar.OR m) = 1 := e1.mpr ⟨va s, List.mem_map.mpr ⟨s, hs, rfl⟩, hs1⟩
    have := e2.2; linarith
  · intro hno
    have ho0 : σ (MVar.OR m) = 0 := by
      rcases hO with h0 | h1
      · exact h0
      · obtain ⟨v, hv, hv1⟩ := e1.mp h1
        obtain ⟨s, hs, rfl⟩ := List.mem_map.mp hv
        exact absurd ⟨s, hs, hv1⟩ hno
    have := e2.2; linarith

/-- **major_one_novel_per_site** at most one novel non-insertion variant per position. -/
theorem major_one_novel_per_site (I : MajorInst) (σ : MVar → Rat) (h : I.build.Sat σ)
    (pos : Int) (hp : pos ∈ I.positions) :
    countOnes σ ((I.funcMuts.filter fun m => m.pos == pos && !m.isIns).map MVar.N) ≤ 1 := by
  have hc := h.2 ⟨ones ((I.funcMuts.filter fun m => m.pos == pos && !m.isIns).map MVar.N), .le, 1⟩ (by
    simp only [MajorInst.build, List.mem_append]
    refine Or.inl (Or.inl (Or.inl (Or.inl (Or.inl (Or.inr ?_)))))
    exact List.mem_map.mpr ⟨pos, hp, rfl⟩)
  simp only [LinCon.holds, evalTerms_ones] at hc
  have hbin : ∀ v ∈ (I.funcMuts.filter fun m => m.pos == pos && !m.isIns).map MVar.N, IsBin (σ v) := by
    intro v hv
    obtain ⟨m, hm, rfl⟩ := List.mem_map.mp hv
    exact I.sat_bin_N h ((List.mem_filter.mp hm).1)
  rw [sumVars_eq_countOnes σ _ hbin] at hc
  exact_mod_cast hc

/-- **major_copy_order** copy selectors of one allele are used in order (copy `i` only if
copy `i-1`): the decision part is determined by the allele *multiset*. -/
theorem major_copy_order (I : MajorInst) (σ : MVar → Rat) (h : I.build.Sat σ)
    (s : MajorA × Nat) (hs : s ∈ I.slots) (hpos : s.2 > 0) :
    σ (.A s.1.name s.2) ≤ σ (.A s.1.name (s.2 - 1)) := by
  have hc := h.2 (leVar (va s) (.A s.1.name (s.2 - 1))) (by
    simp only [MajorInst.build, List.mem_append]
    refine Or.inl (Or.inl (Or.inl (Or.inl (Or.inl (Or.inl ?_)))))
    exact List.mem_map.mpr ⟨s, List.mem_filter.mpr ⟨hs, by simpa using hpos⟩, rfl⟩)
  simpa [leVar_holds, va] using hc

/-- Value of the error row `m` that the equalities force. -/
def MajorInst.rowExpr (I : MajorInst) (σ : MVar → Rat) (m : Mut) : Rat :=
  if m.op == "_" then sumVars σ ((I.refCarriers m.pos).map va)
  else sumVars σ ((I.carriers m).map va) + σ (.N m)

/-- **major_error_rows** in every feasible point the free error term of a variant row is
`observed copies − called carriers − novel flag`, and of a reference row
`observed reference copies − called reference carriers`; the helper dominates its absolute value. -/
theorem major_error_rows (I : MajorInst) (σ : MVar → Rat) (h : I.build.Sat σ) :
    (∀ m ∈ I.funcMuts, σ (.E m) = I.observed m - (sumVars σ ((I.carriers m).map va) + σ (.N m)) ∧
        |σ (.E m)| ≤ σ (.ABS m)) ∧
    (∀ pos ∈ I.positions, σ (.E (refMut pos)) = I.observed (refMut pos) - sumVars σ ((I.refCarriers pos).map va) ∧
        |σ (.E (refMut pos))| ≤ σ (.ABS (refMut pos))) := by
  have habs : ∀ m ∈ I.errRows, |σ (.E m)| ≤ σ (.ABS m) := by
    intro m hm
    apply (abs_gadget σ (.ABS m) (.E m)).mp
    intro c hc
    apply h.2
    simp only [MajorInst.build, List.mem_append]
    refine Or.inl (Or.inr ?_)
    exact List.mem_flatMap.mpr ⟨m, hm, hc⟩
  constructor
  · intro m hm
    have mem : ∀ c ∈ eqCons (ones ((I.carriers m).map va) ++ [(1, MVar.N m), (1, MVar.E m)]) (I.observed m),
        c ∈ I.build.cons := by
      intro c hc
      simp only [MajorInst.build, List.mem_append]
      refine Or.inl (Or.inl (Or.inl (Or.inl (Or.inr ?_))))
      simp only [consCFUNC, List.mem_append]
      exact Or.inl (List.mem_flatMap.mpr ⟨m, hm, hc⟩)
    have hle := h.2 _ (mem _ (eqCons_le_mem _ _))
    have hge := h.2 _ (mem _ (eqCons_ge_mem _ _))
    simp only [LinCon.holds, evalTerms_append, evalTerms_ones, evalTerms_cons, evalTerms_nil] at hle hge
    refine ⟨by linarith, habs m (by simp [errRows, hm])⟩
  · intro pos hp
    have mem : ∀ c ∈ eqCons (ones ((I.refCarriers pos).map va) ++ [(1, MVar.E (refMut pos))]) (I.observed (refMut pos)),
        c ∈ I.build.cons := by
      intro c hc
      simp only [MajorInst.build, List.mem_append]
      refine Or.inl (Or.inl (Or.inl (Or.inl (Or.inr ?_))))
      simp only [consCFUNC, List.mem_append]
      exact Or.inr (List.mem_flatMap.mpr ⟨pos, hp, hc⟩)
    have hle := h.2 _ (mem _ (eqCons_le_mem _ _))
    have hge := h.2 _ (mem _ (eqCons_ge_mem _ _))
    simp only [LinCon.holds, evalTerms_append, evalTerms_ones, evalTerms_cons, evalTerms_nil] at hle hge
    refine ⟨by linarith, habs _ (by simp only [errRows, List.mem_append, List.mem_map]; exact Or.inr ⟨pos, hp, rfl⟩)⟩

/-- **major_novel_flag** the global novelty flag is 1 iff some variant is flagged novel. -/
theorem major_novel_flag (I : MajorInst) (σ : MVar → Rat) (h : I.build.Sat σ) :
    σ .NOVEL = 1 ↔ ∃ m ∈ I.funcMuts, σ (.N m) = 1 := by
  have hZ : IsBin (σ .NOVEL) := h.1 (MVar.NOVEL, Kind.bin) (by simp [MajorInst.build])
  have hbin : ∀ v ∈ I.funcMuts.map MVar.N, IsBin (σ v) := by
    intro v hv
    obtain ⟨m, hm, rfl⟩ := List.mem_map.mp hv
    exact I.sat_bin_N h hm
  have hor : ∀ c ∈ orCons MVar.NOVEL (I.funcMuts.map MVar.N), c.holds σ := by
    intro c hc
    apply h.2
    simp only [MajorInst.build, List.mem_append]
    refine Or.inr ?_
    simp only [orCons, List.mem_cons, List.mem_map] at hc
    simp only [consNOVEL, List.mem_append, List.mem_map, List.mem_singleton]
    rcases hc with rfl | ⟨v, ⟨m, hm, rfl⟩, rfl⟩
    · right; simp [List.map_map, Function.comp_def]
    · left; exact ⟨m, hm, rfl⟩
  have := (or_gadget σ _ _ hZ hbin).mp hor
  constructor
  · intro h1
    obtain ⟨v, hv, hv1⟩ := this.mp h1
    obtain ⟨m, hm, rfl⟩ := List.mem_map.mp hv
    exact ⟨m, hm, hv1⟩
  · rintro ⟨m, hm, h1⟩
    exact this.mpr ⟨_, List.mem_map.mpr ⟨m, hm, rfl⟩, h1⟩

/-- **major_score_lower_bound / closed form** the objective of a feasible point is at least
`Σ_rows |observed − called| + major_novel·[some novel] + 0.1·#novel` — the documented fit
error plus novelty penalties — and equals it exactly when every helper equals the absolute
error (which `abssum_exact` shows is the case at any optimum, since all weights are 1). -/
theorem major_score_closed_form (I : MajorInst) (σ : MVar → Rat) (h : I.build.Sat σ) :
    I.build.objective σ =
      (I.errRows.map fun m => σ (.ABS m)).sum + I.majorNovel * σ .NOVEL +
        Const.MAJOR_NOVEL_EACH * sumVars σ (I.funcMuts.map MVar.N) ∧
    (I.errRows.map fun m => |σ (.E m)|).sum ≤ (I.errRows.map fun m => σ (.ABS m)).sum := by
  constructor
  · simp only [Ilp.objective, MajorInst.build, evalTerms_append, evalTerms_cons, evalTerms_nil]
    have e1 : evalTerms σ (I.errRows.map fun m => ((1 : Rat), MVar.ABS m)) = (I.errRows.map fun m => σ (.ABS m)).sum := by
      induction I.errRows with
      | nil => simp
      | cons m ms ih => simp [ih]
    have e2 : evalTerms σ (I.funcMuts.map fun m => (Const.MAJOR_NOVEL_EACH, MVar.N m)) =
        Const.MAJOR_NOVEL_EACH * sumVars σ (I.funcMuts.map MVar.N) := by
      induction I.funcMuts with
      | nil => simp
      | cons m ms ih => simp [ih]; ring
    rw [e1, e2]; ring
  · have hall := major_error_rows I σ h
    apply list_sum_le_sum
    intro m hm
    simp only [errRows, List.mem_append, List.mem_map] at hm
    rcases hm with hm | ⟨pos, hp, rfl⟩
    · exact (hall.1 m hm).2
    · exact (hall.2 pos hp).2

/-- The weight of the per-variant novelty penalty is positive (from the generated constant),
so adding a novel flag never lowers the objective. -/
theorem major_novel_each_pos : 0 < Const.MAJOR_NOVEL_EACH := by
  unfold Const.MAJOR_NOVEL_EACH; norm_num

/-! ### completeness of the enumeration: the feasible set is an antichain -/

/-- binaries that are pointwise ordered and have the same sum are equal -/
theorem bins_eq_of_le_of_sum_eq {V : Type} (σ τ : V → Rat) (xs : List V)
    (hle : ∀ x ∈ xs, σ x ≤ τ x) (hs : sumVars σ xs = sumVars τ xs) : ∀ x ∈ xs, σ x = τ x := by
  induction xs with
  | nil => intro x hx; cases hx
  | cons y ys ih =>
    simp only [sumVars_cons] at hs
    have hy := hle y (by simp)
    have hrest : sumVars σ ys ≤ sumVars τ ys := by
      unfold sumVars
      exact list_sum_le_sum ys σ τ (fun z hz => hle z (by simp [hz]))
    have e1 : σ y = τ y := by linarith
    have e2 : sumVars σ ys = sumVars τ ys := by linarith
    intro x hx
    rcases List.mem_cons.mp hx with rfl | hx
    · exact e1
    · exact ih (fun z hz => hle z (by simp [hz])) e2 x hx

/-- the auxiliary binaries of a variant row are functions of the copy selectors -/
theorem major_or_xor_values (I : MajorInst) (σ : MVar → Rat) (h : I.build.Sat σ) (m : Mut) (hm : m ∈ I.funcMuts) :
    (σ (.OR m) = 1 ↔ ∃ s ∈ I.carriers m, σ (va s) = 1) ∧ σ (.XOR m) = 1 ∧ σ (.N m) + σ (.OR m) = 1 ∧
      IsBin (σ (.OR m)) ∧ IsBin (σ (.N m)) := by
  have hN := I.sat_bin_N h hm
  obtain ⟨hO, hX⟩ := I.sat_bin_OR h hm
  have hcar : ∀ v ∈ (I.carriers m).map va, IsBin (σ v) := by
    intro v hv
    obtain ⟨s, hs, rfl⟩ := List.mem_map.mp hv
    exact I.sat_bin_slot h ((List.mem_filter.mp hs).1)
  have hor : ∀ c ∈ orCons (MVar.OR m) ((I.carriers m).map va), c.holds σ := by
    intro c hc
    apply h.2
    simp only [MajorInst.build, List.mem_append]
    refine Or.inl (Or.inl (Or.inr ?_))
    exact List.mem_flatMap.mpr ⟨m, hm, List.mem_append_left _ hc⟩
  have hxor : ∀ c ∈ xorCons (MVar.XOR m) (MVar.N m) (MVar.OR m), c.holds σ := by
    intro c hc
    apply h.2
    simp only [MajorInst.build, List.mem_append]
    refine Or.inl (Or.inl (Or.inr ?_))
    exact List.mem_flatMap.mpr ⟨m, hm, List.mem_append_right _ hc⟩
  have e1 := (or_gadget σ _ _ hO hcar).mp hor
  have e2 := (xor_gadget σ _ _ _ hX hN hO).mp hxor
  refine ⟨?_, e2.1, e2.2, hO, hN⟩
  constructor
  · intro h1
    obtain ⟨v, hv, hv1⟩ := e1.mp h1
    obtain ⟨s, hs, rfl⟩ := List.mem_map.mp hv
    exact ⟨s, hs, hv1⟩
  · rintro ⟨s, hs, hs1⟩
    exact e1.mpr ⟨va s, List.mem_map.mpr ⟨s, hs, rfl⟩, hs1⟩

/-- **major_active_antichain** no feasible point of the major model has an active set that
strictly contains the active set of another: if every selector that is on in `σ` is on in `τ`,
the two points agree on every binary variable (copy selectors by the structure equalities, the
rest is determined by them).  This is the hypothesis of C05 `run_T6`, hence: every optimal
combination within the gap is reported, exactly once. -/
theorem major_active_antichain (I : MajorInst) (σ τ : MVar → Rat) (hσ : I.build.Sat σ) (hτ : I.build.Sat τ)
    (hcfg : ∀ a ∈ I.alleles, ∃ cc ∈ I.cn.solution, cc.1 = a.cnConfig)
    (hsub : ∀ s ∈ I.slots, σ (va s) = 1 → τ (va s) = 1) :
    (∀ s ∈ I.slots, σ (va s) = τ (va s)) ∧
    (∀ m ∈ I.funcMuts, σ (.OR m) = τ (.OR m) ∧ σ (.N m) = τ (.N m) ∧ σ (.XOR m) = τ (.XOR m)) ∧
    σ .NOVEL = τ .NOVEL := by
  -- copy selectors
  have hle : ∀ s ∈ I.slots, σ (va s) ≤ τ (va s) := by
    intro s hs
    rcases I.sat_bin_slot hσ hs with h0 | h1
    · rw [h0]; exact (I.sat_bin_slot hτ hs).nonneg
    · rw [h1, hsub s hs h1]
  have hA : ∀ s ∈ I.slots, σ (va s) = τ (va s) := by
    intro s hs
    obtain ⟨a, ha, hsa⟩ : ∃ a ∈ I.alleles, s.1 = a := by
      obtain ⟨a, ha, hm⟩ := List.mem_flatMap.mp hs
      obtain ⟨i, _, rfl⟩ := List.mem_map.mp hm
      exact ⟨a, ha, rfl⟩
    obtain ⟨cc, hcc, hcfgeq⟩ := hcfg a ha
    have c1 := major_csat I σ hσ cc hcc
    have c2 := major_csat I τ hτ cc hcc
    have hmem : s ∈ I.slots.filter fun s => s.1.cnConfig == cc.1 := by
      refine List.mem_filter.mpr ⟨hs, ?_⟩
      rw [hsa, hcfgeq]; simp
    have := bins_eq_of_le_of_sum_eq σ τ ((I.slots.filter fun s => s.1.cnConfig == cc.1).map va)
      (by
        intro x hx
        obtain ⟨t, ht, rfl⟩ := List.mem_map.mp hx
        exact hle t (List.mem_filter.mp ht).1)
      (by
        have bσ : ∀ v ∈ (I.slots.filter fun s => s.1.cnConfig == cc.1).map va, IsBin (σ v) := by
          intro v hv
          obtain ⟨t, ht, rfl⟩ := List.mem_map.mp hv
          exact I.sat_bin_slot hσ (List.mem_filter.mp ht).1
        have bτ : ∀ v ∈ (I.slots.filter fun s => s.1.cnConfig == cc.1).map va, IsBin (τ v) := by
          intro v hv
          obtain ⟨t, ht, rfl⟩ := List.mem_map.mp hv
          exact I.sat_bin_slot hτ (List.mem_filter.mp ht).1
        rw [sumVars_eq_countOnes σ _ bσ, sumVars_eq_countOnes τ _ bτ, c1, c2])
    exact this (va s) (List.mem_map.mpr ⟨s, hmem, rfl⟩)
  refine ⟨hA, ?_, ?_⟩
  · intro m hm
    obtain ⟨oσ, xσ, sσ, bOσ, _⟩ := major_or_xor_values I σ hσ m hm
    obtain ⟨oτ, xτ, sτ, bOτ, _⟩ := major_or_xor_values I τ hτ m hm
    have hiff : (∃ s ∈ I.carriers m, σ (va s) = 1) ↔ (∃ s ∈ I.carriers m, τ (va s) = 1) := by
      constructor
      · rintro ⟨s, hs, h1⟩; exact ⟨s, hs, by rw [← hA s (List.mem_filter.mp hs).1]; exact h1⟩
      · rintro ⟨s, hs, h1⟩; exact ⟨s, hs, by rw [hA s (List.mem_filter.mp hs).1]; exact h1⟩
    have hO : σ (.OR m) = τ (.OR m) := by
      rcases bOσ with h0 | h1
      · rcases bOτ with g0 | g1
        · rw [h0, g0]
        · have := oσ.mpr (hiff.mpr (oτ.mp g1)); rw [h0] at this; norm_num at this
      · rw [h1, oτ.mpr (hiff.mp (oσ.mp h1))]
    refine ⟨hO, by linarith, by rw [xσ, xτ]⟩
  · have hNeq : ∀ m ∈ I.funcMuts, σ (.N m) = τ (.N m) := by
      intro m hm
      obtain ⟨oσ, xσ, sσ, bOσ, _⟩ := major_or_xor_values I σ hσ m hm
      obtain ⟨oτ, xτ, sτ, bOτ, _⟩ := major_or_xor_values I τ hτ m hm
      have hiff : (∃ s ∈ I.carriers m, σ (va s) = 1) ↔ (∃ s ∈ I.carriers m, τ (va s) = 1) := by
        constructor
        · rintro ⟨s, hs, h1⟩; exact ⟨s, hs, by rw [← hA s (List.mem_filter.mp hs).1]; exact h1⟩
        · rintro ⟨s, hs, h1⟩; exact ⟨s, hs, by rw [hA s (List.mem_filter.mp hs).1]; exact h1⟩
      have hO : σ (.OR m) = τ (.OR m) := by
        rcases bOσ with h0 | h1
        · rcases bOτ with g0 | g1
          · rw [h0, g0]
          · have := oσ.mpr (hiff.mpr (oτ.mp g1)); rw [h0] at this; norm_num at this
        · rw [h1, oτ.mpr (hiff.mp (oσ.mp h1))]
      linarith
    have fσ := major_novel_flag I σ hσ
    have fτ := major_novel_flag I τ hτ
    have bσ : IsBin (σ .NOVEL) := hσ.1 (MVar.NOVEL, Kind.bin) (by simp [MajorInst.build])
    have bτ : IsBin (τ .NOVEL) := hτ.1 (MVar.NOVEL, Kind.bin) (by simp [MajorInst.build])
    have hiff : (∃ m ∈ I.funcMuts, σ (.N m) = 1) ↔ (∃ m ∈ I.funcMuts, τ (.N m) = 1) := by
      constructor
      · rintro ⟨m, hm, h1⟩; exact ⟨m, hm, by rw [← hNeq m hm]; exact h1⟩
      · rintro ⟨m, hm, h1⟩; exact ⟨m, hm, by rw [hNeq m hm]; exact h1⟩
    rcases bσ with h0 | h1
    · rcases bτ with g0 | g1
      · rw [h0, g0]
      · have := fσ.mpr (hiff.mpr (fτ.mp g1)); rw [h0] at this; norm_num at this
    · rw [h1, fτ.mpr (hiff.mp (fσ.mp h1))]


/-! ### Non-vacuity: a concrete instance with a feasible point -/

section Example
def exGene : GeneView :=
  { name := "G", regionNames := ["e1"], nGenes := 1, uniqueRegions := ["e1"],
    regionAt := [(10, (0, "e1"))],
    mutations := [⟨⟨10, "A>G"⟩, true, "-"⟩],
    alleles := [⟨"1", "1", [], []⟩, ⟨"2", "1", [⟨10, "A>G"⟩], []⟩],
    cnConfigs := [⟨"1", .default, [[("e1", 1)]], []⟩] }

def exInst : MajorInst :=
  { gene := exGene
    cov := { table := [(10, [("_", [(60, 60), (60, 60)]), ("A>G", [(60, 60), (60, 60)])])], indels := [] }
    cn := ⟨[("1", 2)]⟩
    alleles := exGene.alleles, majorNovel := 21, gap := 0 }

def exSigma : MVar → Rat
  | .A "1" 0 => 1 | .A "2" 0 => 1 | .XOR _ => 1 | .OR _ => 1 | _ => 0

example : exInst.funcMuts = [⟨10, "A>G"⟩] := by decide +kernel
example : ∀ c ∈ exInst.build.cons, c.holds exSigma := by decide +kernel
end Example

end Aldy
