import Aldy.Lemmas.Enumerate
import Aldy.Lemmas.Gadgets
import Aldy.Generated.Constants
import Aldy.Model.Shape
import Mathlib.Tactic.NormNum

/-!
# C05 — the ILP layer returns true optima and exact linearisations

Property theorems only.  `M` is the list of feasible points of *any* finite model,
`gap ≥ 0` is not even needed; `0 < eps` is (`SOLVER_PRECISON = 1e-5`, see
`Generated/Constants.lean` and `solver_precision_pos` in `Props/Constants.lean`).
All theorems quantify over **every** execution `Run` allows, i.e. over every choice a
correct solver may make among tied optima.
-/

namespace Aldy
variable {V : Type}
section Loop
variable [DecidableEq V]
variable {M : List (Pt V)} {gap eps : Rat} {limit : Option Nat}

/-- **T1** the first yielded solution is a global optimum. -/
theorem run_T1 {p ps c} (h : Run M gap eps limit none [] 0 (p :: ps) c) :
    p ∈ M ∧ ∀ q ∈ M, p.obj ≤ q.obj := by
  cases h with
  | limitStop ha _ _ => exact ⟨ha.1, fun q hq => ha.2.2 q hq (okCuts_nil q)⟩
  | more ha _ _ _ => exact ⟨ha.1, fun q hq => ha.2.2 q hq (okCuts_nil q)⟩

/-- **T1'** progress: a feasible model with non-negative optimum yields something unless
the solver reports a non-optimal status. -/
theorem run_T1_nonempty (heps : 0 < eps) (hgap : 0 ≤ gap) {ps}
    (h : Run M gap eps limit none [] 0 ps true)
    (hne : ∃ p, IsArgmin M [] p ∧ 0 ≤ p.obj) : ps ≠ [] := by
  obtain ⟨p, hp, hp0⟩ := hne
  cases h with
  | infeasible hinf =>
    have := hinf p hp.1; rw [okCuts_nil] at this; cases this
  | gapStop ha hr =>
    rename_i p'
    simp only [Option.getD_none] at hr
    rw [rejected_iff heps] at hr
    have h1 : p'.obj ≤ p.obj := ha.2.2 p hp.1 (okCuts_nil p)
    have h2 : p.obj ≤ p'.obj := hp.2.2 p' ha.1 (okCuts_nil p')
    have : 0 ≤ gap * p'.obj := mul_nonneg hgap (by linarith)
    nlinarith
  | more _ _ _ _ => simp

/-- **T2** every yielded solution is feasible and within the gap of the optimum
(`best` = objective of the first yielded solution = global optimum by T1). -/
theorem run_T2 (heps : 0 < eps) {p ps c} (h : Run M gap eps limit none [] 0 (p :: ps) c) :
    ∀ q ∈ p :: ps, q ∈ M ∧ q.obj < (1 + gap) * p.obj + eps := by
  intro q hq
  refine ⟨(h.mem_and_cuts q hq).1, ?_⟩
  have := h.not_rejected q hq
  simpa [refObj, rejected_false_iff heps] using this

/-- **T3** no binary assignment is yielded twice — indeed no yielded active set contains
an earlier one. -/
theorem run_T3 {ps c} (h : Run M gap eps limit none [] 0 ps c) :
    ps.Pairwise fun p q => ¬ (∀ x ∈ p.act, x ∈ q.act) := by
  refine h.pairwise_not_subset.imp ?_
  intro p q hpq hsub
  rw [(subsetB_iff _ _).mpr hsub] at hpq; cases hpq

/-- **T4** solutions come in non-decreasing objective order. -/
theorem run_T4 {ps c} (h : Run M gap eps limit none [] 0 ps c) :
    ps.Pairwise fun p q => p.obj ≤ q.obj := h.pairwise_obj_le

/-- **T5** completeness modulo supersets: if the loop ran to the end, every feasible point
within the gap of the optimum `m` has the active set of some yielded solution as a subset,
and that solution is no worse. -/
theorem run_T5 (heps : 0 < eps) {ps} (h : Run M gap eps limit none [] 0 ps true)
    {m : Rat} (hm : ∀ p, IsArgmin M [] p → p.obj = m) :
    ∀ q ∈ M, q.obj < (1 + gap) * m + eps →
      ∃ p ∈ ps, (∀ x ∈ p.act, x ∈ q.act) ∧ p.obj ≤ q.obj := by
  intro q hq hlt
  obtain ⟨p, hp, h1, h2⟩ := h.complete_aux heps rfl m (by simpa using hm) q hq (okCuts_nil q)
    ((rejected_false_iff heps).mpr hlt)
  exact ⟨p, hp, (subsetB_iff _ _).mp h1, h2⟩

/-- **T6** if no feasible active set strictly contains another (antichain), then every
feasible assignment within the gap is yielded — with the least objective among the points
that share its active set — and by T3 exactly once. -/
theorem run_T6 (heps : 0 < eps) {ps} (h : Run M gap eps limit none [] 0 ps true)
    {m : Rat} (hm : ∀ p, IsArgmin M [] p → p.obj = m)
    (hanti : ∀ p ∈ M, ∀ q ∈ M, (∀ x ∈ p.act, x ∈ q.act) → ∀ x ∈ q.act, x ∈ p.act) :
    ∀ q ∈ M, q.obj < (1 + gap) * m + eps →
      ∃ p ∈ ps, (∀ x, x ∈ p.act ↔ x ∈ q.act) ∧ p.obj ≤ q.obj := by
  intro q hq hlt
  obtain ⟨p, hp, hsub, hle⟩ := run_T5 heps h hm q hq hlt
  have hpM := (h.mem_and_cuts p hp).1
  exact ⟨p, hp, fun x => ⟨hsub x, hanti p hpM q hq hsub x⟩, hle⟩

/-- **stage_reports_optimum** a run of the enumeration loop over the feasible points of a model
whose objective is nowhere negative, that ended normally, reports something whenever the model is
feasible - and by `run_T1` the first reported point is a global optimum.  `cn_objective_nonneg` (Props/C03), `major_objective_nonneg` (Props/C01) and
`minor_objective_nonneg` (Props/C01Minor) discharge `hnonneg` for the three stage models. -/
theorem stage_reports_optimum (heps : 0 < eps) (hgap : 0 ≤ gap)
    (hnonneg : ∀ p ∈ M, 0 ≤ p.obj) {ps} (h : Run M gap eps limit none [] 0 ps true)
    (hfeas : ∃ p, IsArgmin M [] p) : ps ≠ [] := by
  obtain ⟨p, hp⟩ := hfeas
  exact run_T1_nonempty heps hgap h ⟨p, hp, hnonneg p hp.1⟩


/-- The literal stop test of the code equals the documented one. -/
theorem stop_test_meaning (heps : 0 < eps) (best obj : Rat) :
    rejected gap eps best obj = true ↔ (1 + gap) * best + eps ≤ obj := rejected_iff heps

end Loop

/-! ## Obligations on the literals of the current source (`Generated/Constants.lean`) -/

/-- The precision used by the stop test is positive (hypothesis `heps` of T1'-T6). -/
theorem stop_eps_pos : 0 < Const.STOP_EPS := by
  unfold Const.STOP_EPS; norm_num

/-- "Within the gap" is meant up to the documented solver precision `1e-5`, not more. -/
theorem stop_eps_small : Const.STOP_EPS ≤ 1 / 100000 := by
  unfold Const.STOP_EPS; norm_num

/-- Solutions are verified with a positive tolerance (a zero tolerance rejects optima
whose floating-point residual is 1e-17). -/
theorem verify_tol_pos : 0 < Const.VERIFY_TOL := by
  unfold Const.VERIFY_TOL; norm_num

/-! ## Helper builders are exact (re-stated from `Lemmas/Gadgets.lean`) -/

/-- In every feasible point the product variable equals the AND of its factors. -/
theorem prod_exact (σ : V → Rat) (res : V) (ts : List V)
    (hres : IsBin (σ res)) (hts : ∀ t ∈ ts, IsBin (σ t))
    (h : ∀ c ∈ prodCons res ts, c.holds σ) :
    (σ res = 1) ↔ (∀ t ∈ ts, σ t = 1) := (prod_gadget σ res ts hres hts).mp h

/-- Conversely the AND assignment is feasible: the gadget excludes nothing else. -/
theorem prod_complete (σ : V → Rat) (res : V) (ts : List V)
    (hres : IsBin (σ res)) (hts : ∀ t ∈ ts, IsBin (σ t))
    (h : (σ res = 1) ↔ (∀ t ∈ ts, σ t = 1)) :
    ∀ c ∈ prodCons res ts, c.holds σ := (prod_gadget σ res ts hres hts).mpr h

/-- The helper is an upper bound of the absolute value, and anything above is feasible. -/
theorem abs_exact (σ : V → Rat) (a v : V) :
    (∀ c ∈ absCons a v, c.holds σ) ↔ |σ v| ≤ σ a := abs_gadget σ a v

/-- At any optimum the weighted helper sum equals the weighted sum of absolute values
and every helper equals its absolute value. -/
theorem abssum_exact (ts : List (Rat × Rat × Rat))
    (hw : ∀ t ∈ ts, 0 < t.1) (hf : ∀ t ∈ ts, |t.2.1| ≤ t.2.2) :
    (ts.map fun t => t.1 * |t.2.1|).sum ≤ (ts.map fun t => t.1 * t.2.2).sum ∧
    ((ts.map fun t => t.1 * t.2.2).sum ≤ (ts.map fun t => t.1 * |t.2.1|).sum →
      ∀ t ∈ ts, t.2.2 = |t.2.1|) := abssum_opt ts hw hf

/-- The exclusion cut removes exactly the assignments whose active set contains `vv`. -/
theorem cut_exact (σ : V → Rat) (vv : List V) (h : ∀ v ∈ vv, IsBin (σ v)) :
    (cutCon vv).holds σ ↔ ¬ (∀ v ∈ vv, σ v = 1) := cut_iff σ vv h

/-! ## Non-vacuity: a concrete model with a run that meets every hypothesis -/

section Example
/-- two binaries x0 x1, points: {} obj 1, {0} obj 0, {1} obj 0, {0,1} obj 3 -/
def exM : List (Pt Nat) := [⟨[], 1⟩, ⟨[0], 0⟩, ⟨[1], 0⟩, ⟨[0, 1], 3⟩]

example : Run exM 0 (1/100000) none none [] 0 [⟨[0], 0⟩, ⟨[1], 0⟩] true := by
  refine Run.more (p := ⟨[0], 0⟩) ⟨by decide +kernel, by decide +kernel, by decide +kernel⟩ (by decide +kernel) (by decide +kernel) ?_
  refine Run.more (p := ⟨[1], 0⟩) ⟨by decide +kernel, by decide +kernel, by decide +kernel⟩ (by decide +kernel) (by decide +kernel) ?_
  exact Run.gapStop (p := ⟨[], 1⟩) ⟨by decide +kernel, by decide +kernel, by decide +kernel⟩ (by decide +kernel)

example : validRun exM 0 (1/100000) (1/1000000) none [⟨[0], 0⟩, ⟨[1], 0⟩] = none := by decide +kernel
example : (validRun exM 0 (1/100000) (1/1000000) none [⟨[0], 0⟩]).isSome = true := by decide +kernel
end Example


/-! ### General integers are not part of an assignment -/
section ShapePoints
variable [DecidableEq V]

theorem sublistsOf_sublist (xs l : List V) (h : l ∈ sublistsOf xs) : l.Sublist xs := by
  induction xs generalizing l with
  | nil =>
    simp only [sublistsOf, List.mem_singleton] at h
    subst h; exact List.Sublist.refl _
  | cons x xs ih =>
    simp only [sublistsOf, List.mem_append, List.mem_map] at h
    rcases h with h | ⟨l', hl', rfl⟩
    · exact (ih l h).cons x
    · exact (ih l' hl').cons₂ x

/-- **points_act_sublist** the active set of every point of a model with general integers
(`addVar(vtype="I")`) consists of binaries only, so that the exclusion cut of the enumeration
never constrains an integer: such a variable is not "a binary that is 1" whatever its value. -/
theorem points_act_sublist (s : Shape V) (p : Pt V) (h : p ∈ s.points) : p.act.Sublist s.bins := by
  unfold Shape.points at h
  obtain ⟨act, hact, hp⟩ := List.mem_flatMap.mp h
  obtain ⟨iv, _, hiv⟩ := List.mem_filterMap.mp hp
  have hsub := sublistsOf_sublist s.bins act hact
  simp only at hiv
  split at hiv
  · cases hiv; exact hsub
  · cases hiv

end ShapePoints

end Aldy
