import Aldy.Props.C04Score

/-!
# C04 — at an optimum the score is the documented objective of the reported assignment

The refinement model carries one helper `ABS m` per error row with the two constraints
`ABS ≥ ±E`; no other constraint mentions a helper.  Hence replacing every helper by the absolute
row error keeps a point feasible and can only lower its objective (`minor_tighten`), so at an
optimum (non-negative weights are 1 here) every helper **is** the absolute row error
(`minor_optimum_abs_tight`) and the objective is

    sum of |observed - carried| over the variant and reference rows
  + miss / add / novel-core penalties + read-phase disagreement            (`minor_optimum_score_is_documented`)

with every summand an indicator of what its name says (Props/C04Score).
-/

namespace Aldy
open MinorInst

def usesAbs : NVar → Bool
  | .ABS _ => true
  | _ => false

@[simp] theorem usesAbs_A (s : MSlot) : usesAbs (.A s) = false := rfl
@[simp] theorem usesAbs_K (m : Mut) (s : MSlot) : usesAbs (.K m s) = false := rfl
@[simp] theorem usesAbs_MULK (m : Mut) (s : MSlot) : usesAbs (.MULK m s) = false := rfl
@[simp] theorem usesAbs_N (m : Mut) (s : MSlot) : usesAbs (.N m s) = false := rfl
@[simp] theorem usesAbs_MULN (m : Mut) (s : MSlot) : usesAbs (.MULN m s) = false := rfl
@[simp] theorem usesAbs_E (m : Mut) : usesAbs (.E m) = false := rfl
@[simp] theorem usesAbs_ABS (m : Mut) : usesAbs (.ABS m) = true := rfl
@[simp] theorem usesAbs_VNEWOR (m : Mut) : usesAbs (.VNEWOR m) = false := rfl
@[simp] theorem usesAbs_PH (a r : Nat) : usesAbs (.PH a r) = false := rfl
@[simp] theorem usesAbs_PH2 (a r i : Nat) : usesAbs (.PH2 a r i) = false := rfl
@[simp] theorem usesAbs_PH3 (a r i : Nat) : usesAbs (.PH3 a r i) = false := rfl

attribute [irreducible] usesAbs

/-- every helper replaced by the absolute value of its row error -/
def tighten (σ : NVar → Rat) : NVar → Rat
  | .ABS m => |σ (.E m)|
  | v => σ v

theorem tighten_eq (σ : NVar → Rat) (v : NVar) (h : usesAbs v = false) : tighten σ v = σ v := by
  cases v <;> simp_all [tighten]

theorem evalTerms_congr_on {V : Type} (σ τ : V → Rat) (ts : List (Rat × V)) (h : ∀ t ∈ ts, σ t.2 = τ t.2) :
    evalTerms σ ts = evalTerms τ ts := by
  induction ts with
  | nil => rfl
  | cons t ts ih =>
    have h1 := h t (by simp)
    have h2 := ih (fun x hx => h x (by simp [hx]))
    simp [h1, h2]

theorem evalTerms_tighten (σ : NVar → Rat) (ts : List (Rat × NVar)) (h : ts.all (fun t => !usesAbs t.2) = true) :
    evalTerms (tighten σ) ts = evalTerms σ ts := by
  apply evalTerms_congr_on
  intro t ht
  have := List.all_eq_true.mp h t ht
  exact tighten_eq σ t.2 (by simpa using this)

theorem holds_tighten (σ : NVar → Rat) (c : LinCon NVar) (h : c.terms.all (fun t => !usesAbs t.2) = true) :
    c.holds (tighten σ) ↔ c.holds σ := by
  unfold LinCon.holds
  rw [evalTerms_tighten σ c.terms h]

/-- no constraint other than the two of its own helper mentions a helper -/
theorem noabs_cons (I : MinorInst) (c : LinCon NVar)
    (hc : c ∈ I.consCORD ∨ c ∈ I.consCCNT ∨ c ∈ I.consPROD ∨ c ∈ I.consCONE ∨ c ∈ I.consCCOV ∨ c ∈ I.consRULE1 ∨
      c ∈ I.consRULE2 ∨ c ∈ I.consRULE3 ∨ c ∈ I.consRULE4 ∨ c ∈ I.consRULE5 ∨ c ∈ I.consRULE6 ∨ c ∈ I.consPHASE ∨
      c ∈ I.consVNEWOR) : c.terms.all (fun t => !usesAbs t.2) = true := by
  rcases hc with hc | hc | hc | hc | hc | hc | hc | hc | hc | hc | hc | hc | hc
  · obtain ⟨cs, _, rfl⟩ := List.mem_map.mp hc
    simp [leVar]
  · simp only [consCCNT, List.mem_append, List.mem_flatMap, List.mem_singleton] at hc
    rcases hc with ⟨mc, _, hc⟩ | rfl
    · simp only [List.mem_cons, List.mem_nil_iff, or_false] at hc
      rcases hc with rfl | rfl <;> simp [MinorInst.one]
    · simp [MinorInst.one]
  · obtain ⟨m, _, hc⟩ := List.mem_flatMap.mp hc
    obtain ⟨cs, _, hc⟩ := List.mem_flatMap.mp hc
    split_ifs at hc
    · simp only [prodCons, List.map_cons, List.map_nil, List.cons_append, List.nil_append, List.mem_cons,
        List.mem_nil_iff, or_false] at hc
      rcases hc with rfl | rfl | rfl <;> simp [leVar]
    · simp only [prodCons, List.map_cons, List.map_nil, List.cons_append, List.nil_append, List.mem_cons,
        List.mem_nil_iff, or_false] at hc
      rcases hc with rfl | rfl | rfl <;> simp [leVar]
    · cases hc
  · obtain ⟨pos, _, hc⟩ := List.mem_flatMap.mp hc
    obtain ⟨cs, _, hc⟩ := List.mem_filterMap.mp hc
    split_ifs at hc
    cases hc
    simp [MinorInst.one]
  · simp only [consCCOV, List.mem_append, List.mem_flatMap] at hc
    rcases hc with ⟨m, _, hc⟩ | ⟨pos, _, hc⟩
    · simp only [eqc, List.mem_cons, List.mem_nil_iff, or_false] at hc
      rcases hc with rfl | rfl <;>
      · simp only [List.all_append, Bool.and_eq_true]
        refine ⟨?_, by simp [MinorInst.one]⟩
        unfold MinorInst.varTerms
        rw [List.all_eq_true]
        intro t ht
        obtain ⟨cs, _, h⟩ := List.mem_filterMap.mp ht
        split_ifs at h <;> cases h <;> simp [MinorInst.one]
    · simp only [eqc, List.mem_cons, List.mem_nil_iff, or_false] at hc
      rcases hc with rfl | rfl <;>
      · simp only [List.all_append, Bool.and_eq_true]
        refine ⟨?_, by simp [MinorInst.one]⟩
        unfold MinorInst.refTerms
        rw [List.all_eq_true]
        intro t ht
        obtain ⟨cs, _, h⟩ := List.mem_flatMap.mp ht
        split_ifs at h
        · cases h
        · cases hp : presentAt cs.1 pos with
          | nil =>
            rw [hp] at h
            simp only [List.mem_cons, List.mem_map] at h
            rcases h with rfl | ⟨m, _, rfl⟩ <;> simp [MinorInst.one, MinorInst.neg]
          | cons p ps =>
            rw [hp] at h
            simp only [List.mem_append, List.mem_cons, List.mem_nil_iff, or_false, List.mem_map] at h
            rcases h with (rfl | rfl) | ⟨m, _, rfl⟩ <;> simp [MinorInst.one, MinorInst.neg]
  · simp only [consRULE1, List.mem_append, List.mem_flatMap, List.mem_map] at hc
    rcases hc with ⟨cs, _, m, _, rfl⟩ | ⟨cs, _, m, _, rfl⟩ <;> simp [leVar]
  · simp only [consRULE2, List.mem_flatMap, List.mem_map] at hc
    obtain ⟨cs, _, m, _, rfl⟩ := hc
    simp [MinorInst.one, MinorInst.neg]
  · simp only [consRULE3, List.mem_flatMap, List.mem_map] at hc
    obtain ⟨cs, _, m, _, rfl⟩ := hc
    simp [MinorInst.one]
  · obtain ⟨pos, _, hc⟩ := List.mem_flatMap.mp hc
    obtain ⟨cs, _, hc⟩ := List.mem_flatMap.mp hc
    rcases List.mem_append.mp hc with hc | hc
    · split_ifs at hc
      · simp only [List.mem_singleton] at hc
        subst hc
        simp [MinorInst.one]
      · cases hc
    · split_ifs at hc
      · simp only [List.mem_singleton] at hc
        subst hc
        simp [MinorInst.one]
      · cases hc
  · obtain ⟨m, _, hc⟩ := List.mem_flatMap.mp hc
    have hall : (I.carrierTerms m).all (fun t => !usesAbs t.2) = true := by
      unfold MinorInst.carrierTerms
      rw [List.all_eq_true]
      intro t ht
      rcases List.mem_append.mp ht with ht | ht
      · obtain ⟨cs, _, h⟩ := List.mem_filterMap.mp ht
        split_ifs at h; cases h; simp [MinorInst.one]
      · obtain ⟨cs, _, h⟩ := List.mem_filterMap.mp ht
        split_ifs at h; cases h; simp [MinorInst.one]
    split_ifs at hc
    · simp only [List.mem_singleton] at hc; subst hc; exact hall
    · simp only [List.mem_cons, List.mem_nil_iff, or_false] at hc
      rcases hc with rfl | rfl <;> exact hall
  · unfold MinorInst.consRULE6 at hc
    split_ifs at hc
    · cases hc
    · obtain ⟨pos, _, rfl⟩ := List.mem_map.mp hc
      simp only
      rw [List.all_eq_true]
      intro t ht
      obtain ⟨p, hp, htp⟩ := List.mem_flatMap.mp ht
      unfold MinorInst.rule6Per at hp
      obtain ⟨cs, _, rfl⟩ := List.mem_map.mp hp
      simp only [List.mem_cons, List.mem_map, List.mem_append] at htp
      rcases htp with rfl | ⟨v, hv, rfl⟩
      · simp
      · rcases hv with ⟨m, _, rfl⟩ | ⟨m, _, rfl⟩ <;> simp [MinorInst.neg]
  · simp only [consPHASE, List.mem_append, List.mem_flatMap] at hc
    rcases hc with ⟨cell, hcell, hc⟩ | ⟨ri, _, hc⟩
    · simp only [List.mem_cons, List.mem_append, List.mem_flatMap] at hc
      have hsel : ∀ v, v ∈ cell.pos ∨ v ∈ cell.neg → usesAbs v = false := by
        intro v hv
        unfold MinorInst.phaseCells at hcell
        obtain ⟨rc, _, hc2⟩ := List.mem_flatMap.mp hcell
        obtain ⟨ca, _, hsome⟩ := List.mem_filterMap.mp hc2
        simp only at hsome
        split_ifs at hsome
        cases hsome
        rcases phaseSel_mem I ca.1 rc.1.1 v hv with ⟨m, _, rfl⟩ | ⟨m, _, rfl⟩ <;> simp
      rcases hc with (rfl | ⟨vi, hvi, hc⟩) | ⟨vi, hvi, hc⟩
      · simp [leVar]
      · have hm : usesAbs vi.1 = false := hsel vi.1 (Or.inl (List.of_mem_zip ((List.zipIdx_eq_zip_range' ..) ▸ hvi)).1)
        simp only [prodCons, List.map_cons, List.map_nil, List.cons_append, List.nil_append, List.mem_cons,
          List.mem_nil_iff, or_false] at hc
        rcases hc with rfl | rfl | rfl <;> simp [leVar, hm]
      · have hm : usesAbs vi.1 = false := hsel vi.1 (Or.inr (List.of_mem_zip ((List.zipIdx_eq_zip_range' ..) ▸ hvi)).1)
        simp only [prodCons, List.map_cons, List.map_nil, List.cons_append, List.nil_append, List.mem_cons,
          List.mem_nil_iff, or_false] at hc
        rcases hc with rfl | rfl | rfl <;> simp [leVar, hm]
    · split_ifs at hc
      · cases hc
      · simp only [List.mem_cons, List.mem_nil_iff, or_false] at hc
        rcases hc with rfl | rfl <;> simp [MinorInst.one]
  · obtain ⟨m, _, hc⟩ := List.mem_flatMap.mp hc
    have hz : ∀ v ∈ I.novelCoreSel m, usesAbs v = false := by
      intro v hv
      obtain ⟨cs, _, h⟩ := List.mem_filterMap.mp hv
      split_ifs at h
      cases h
      simp
    simp only [orCons, List.mem_cons, List.mem_map] at hc
    rcases hc with rfl | ⟨x, hx, rfl⟩
    · simp only [List.all_cons, usesAbs_VNEWOR, Bool.not_false, Bool.true_and]
      rw [List.all_eq_true]
      intro t ht
      obtain ⟨v, hv, rfl⟩ := List.mem_map.mp ht
      simp [hz v hv]
    · simp [hz x hx]

/-- the error term of a reference row is the observed reference copies minus the copies left as reference -/
theorem minor_ref_rows (I : MinorInst) (σ : NVar → Rat) (h : I.build.Sat σ) (pos : Int) (hp : pos ∈ I.positions) :
    σ (.E (refMut' pos)) = I.observed (refMut' pos) - evalTerms σ (I.refTerms pos) := by
  have mem : ∀ c ∈ eqc (I.refTerms pos ++ [MinorInst.one (.E (refMut' pos))]) (I.observed (refMut' pos)), c ∈ I.build.cons := by
    intro c hc
    apply mem_build
    refine Or.inr (Or.inr (Or.inr (Or.inr (Or.inl ?_))))
    simp only [consCCOV, List.mem_append, List.mem_flatMap]
    exact Or.inr ⟨pos, hp, hc⟩
  have hge := h.2 ⟨I.refTerms pos ++ [MinorInst.one (.E (refMut' pos))], .ge, I.observed (refMut' pos)⟩ (mem _ (by simp [eqc]))
  have hle := h.2 ⟨I.refTerms pos ++ [MinorInst.one (.E (refMut' pos))], .le, I.observed (refMut' pos)⟩ (mem _ (by simp [eqc]))
  simp only [LinCon.holds, evalTerms_append, evalTerms_cons, evalTerms_nil, MinorInst.one] at hge hle
  linarith

/-- **minor_tighten** replacing every helper by the absolute row error keeps a point feasible, and
lowers its objective by exactly the slack of the helpers -/
theorem minor_tighten (I : MinorInst) (σ : NVar → Rat) (h : I.build.Sat σ) :
    I.build.Sat (tighten σ) ∧
    I.build.objective σ - I.build.objective (tighten σ) =
      (I.errRows.map fun m => σ (.ABS m) - |σ (.E m)|).sum := by
  constructor
  · constructor
    · intro vk hvk
      have hσ := h.1 vk hvk
      simp only [MinorInst.build, List.mem_append, List.mem_map, List.mem_flatMap, List.mem_cons,
        List.mem_nil_iff, or_false] at hvk
      rcases hvk with (((((⟨cs, _, rfl⟩ | ⟨cs, _, m, _, rfl | rfl⟩) | ⟨cs, _, m, _, rfl | rfl⟩) | ⟨m, _, rfl⟩) |
        ⟨m, _, rfl⟩) | ⟨m, _, rfl⟩) | ⟨c, _, (rfl | ⟨vi, _, rfl⟩) | ⟨vi, _, rfl⟩⟩
      all_goals first
        | exact hσ
        | (simp only [Kind.ok, tighten]
           exact ⟨by intro l hl; cases hl; exact abs_nonneg _, by intro u hu; cases hu⟩)
    · intro c hc
      have hc' := hc
      simp only [MinorInst.build, List.mem_append] at hc
      rcases hc with ((((((((((((hc | hc) | hc) | hc) | hc) | hc) | hc) | hc) | hc) | hc) | hc) | hc) | hc) | hc
      · exact (holds_tighten σ c (noabs_cons I c (Or.inl hc))).mpr (h.2 c hc')
      · exact (holds_tighten σ c (noabs_cons I c (Or.inr (Or.inl hc)))).mpr (h.2 c hc')
      · exact (holds_tighten σ c (noabs_cons I c (Or.inr (Or.inr (Or.inl hc))))).mpr (h.2 c hc')
      · exact (holds_tighten σ c (noabs_cons I c (Or.inr (Or.inr (Or.inr (Or.inl hc)))))).mpr (h.2 c hc')
      · exact (holds_tighten σ c (noabs_cons I c (Or.inr (Or.inr (Or.inr (Or.inr (Or.inl hc))))))).mpr (h.2 c hc')
      · exact (holds_tighten σ c (noabs_cons I c (Or.inr (Or.inr (Or.inr (Or.inr (Or.inr (Or.inl hc)))))))).mpr (h.2 c hc')
      · exact (holds_tighten σ c (noabs_cons I c (Or.inr (Or.inr (Or.inr (Or.inr (Or.inr (Or.inr (Or.inl hc))))))))).mpr (h.2 c hc')
      · exact (holds_tighten σ c (noabs_cons I c (Or.inr (Or.inr (Or.inr (Or.inr (Or.inr (Or.inr (Or.inr (Or.inl hc)))))))))).mpr (h.2 c hc')
      · exact (holds_tighten σ c (noabs_cons I c (Or.inr (Or.inr (Or.inr (Or.inr (Or.inr (Or.inr (Or.inr (Or.inr (Or.inl hc))))))))))).mpr (h.2 c hc')
      · exact (holds_tighten σ c (noabs_cons I c (Or.inr (Or.inr (Or.inr (Or.inr (Or.inr (Or.inr (Or.inr (Or.inr (Or.inr (Or.inl hc)))))))))))).mpr (h.2 c hc')
      · exact (holds_tighten σ c (noabs_cons I c (Or.inr (Or.inr (Or.inr (Or.inr (Or.inr (Or.inr (Or.inr (Or.inr (Or.inr (Or.inr (Or.inl hc))))))))))))).mpr (h.2 c hc')
      · exact (holds_tighten σ c (noabs_cons I c (Or.inr (Or.inr (Or.inr (Or.inr (Or.inr (Or.inr (Or.inr (Or.inr (Or.inr (Or.inr (Or.inr (Or.inl hc)))))))))))))).mpr (h.2 c hc')
      · obtain ⟨m, _, hm⟩ := List.mem_flatMap.mp hc
        refine (abs_gadget (tighten σ) (.ABS m) (.E m)).mpr ?_ c hm
        simp only [tighten]; exact le_refl _
      · exact (holds_tighten σ c (noabs_cons I c (Or.inr (Or.inr (Or.inr (Or.inr (Or.inr (Or.inr (Or.inr (Or.inr (Or.inr (Or.inr (Or.inr (Or.inr hc)))))))))))))).mpr (h.2 c hc')
  · rw [minor_score_closed_form I σ, minor_score_closed_form I (tighten σ)]
    simp only [tighten, sumVars]
    have e : ∀ (l : List Mut), (l.map fun m => σ (.ABS m)).sum - (l.map fun m => |σ (.E m)|).sum =
        (l.map fun m => σ (.ABS m) - |σ (.E m)|).sum := by
      intro l
      induction l with
      | nil => simp
      | cons x xs ih => simp only [List.map_cons, List.sum_cons, ← ih]; ring
    rw [← e]
    have hN : (I.novelMuts.map NVar.VNEWOR).map (tighten σ) = (I.novelMuts.map NVar.VNEWOR).map σ := by
      rw [List.map_map, List.map_map]
      apply List.map_congr_left
      intro m _
      rfl
    rw [hN]
    ring

/-- **minor_optimum_abs_tight** at an optimum every helper is the absolute error of its row -/
theorem minor_optimum_abs_tight (I : MinorInst) (σ : NVar → Rat) (h : I.build.Sat σ)
    (hopt : ∀ τ, I.build.Sat τ → I.build.objective σ ≤ I.build.objective τ) :
    ∀ m ∈ I.errRows, σ (.ABS m) = |σ (.E m)| := by
  obtain ⟨hs, hd⟩ := minor_tighten I σ h
  have hle := hopt _ hs
  have hnn : ∀ m ∈ I.errRows, 0 ≤ σ (.ABS m) - |σ (.E m)| := fun m hm => by
    have := minor_abs_rows I σ h m hm
    linarith
  have hz := sum_nonneg_eq_zero I.errRows (fun m => σ (.ABS m) - |σ (.E m)|) hnn (by linarith)
  intro m hm
  have := hz m hm
  linarith

/-- **minor_optimum_score_is_documented** the objective of an optimum of the refinement model is
the documented objective of the assignment it reports: the absolute fit error of every variant and
reference row (observed copies minus carried copies) + `minor_miss` per dropped definition variant
+ `minor_add * (1 + k/1e6)` per addition + `minor_add / 2` per novel core variant + the read-phase
disagreement -/
theorem minor_optimum_score_is_documented (I : MinorInst) (σ : NVar → Rat) (h : I.build.Sat σ)
    (hopt : ∀ τ, I.build.Sat τ → I.build.objective σ ≤ I.build.objective τ) :
    I.build.objective σ =
      (I.mutations.map fun m => |I.observed m - evalTerms σ (I.varTerms m)|).sum +
      (I.positions.map fun pos => |I.observed (refMut' pos) - evalTerms σ (I.refTerms pos)|).sum +
      I.minorMiss * (I.slots.map fun cs => (cs.1.defMuts.map fun m => σ (.A cs.2) - σ (.MULK m cs.2)).sum).sum +
      (I.newSelectors.zipIdx.map fun e =>
          I.minorAdd * (1 + (e.2 : Rat) / Const.MINOR_TIEBREAK_DIV) * σ (.N e.1.1 e.1.2)).sum +
      I.minorAdd / Const.MINOR_NOVEL_DIV * sumVars σ (I.novelMuts.map NVar.VNEWOR) +
      I.minorPhase * (I.phaseCells.map fun c => (c.cnt : Rat) *
          (((c.pos.zipIdx).map fun vi => σ (.PH c.ai c.ri) - σ (.PH2 c.ai c.ri vi.2)).sum +
           ((c.neg.zipIdx).map fun vi => σ (.PH3 c.ai c.ri vi.2)).sum)).sum := by
  rw [minor_score_closed_form I σ]
  have htight := minor_optimum_abs_tight I σ h hopt
  have hrows : (I.errRows.map fun m => σ (.ABS m)) =
      (I.mutations.map fun m => |I.observed m - evalTerms σ (I.varTerms m)|) ++
      (I.positions.map fun pos => |I.observed (refMut' pos) - evalTerms σ (I.refTerms pos)|) := by
    unfold MinorInst.errRows
    rw [List.map_append, List.map_map]
    congr 1
    · apply List.map_congr_left
      intro m hm
      rw [htight m (by simp [MinorInst.errRows, hm])]
      have := (minor_error_rows I σ h m hm).1
      rw [this]
    · apply List.map_congr_left
      intro pos hp
      simp only [Function.comp]
      rw [htight (refMut' pos) (by simp only [MinorInst.errRows, List.mem_append, List.mem_map]; exact Or.inr ⟨pos, hp, rfl⟩)]
      have := minor_ref_rows I σ h pos hp
      rw [this]
  rw [hrows, List.sum_append]

end Aldy
