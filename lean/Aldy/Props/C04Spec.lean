import Aldy.Props.C04Tight
import Aldy.Model.MinorSpec

/-!
# C04 — the score of a refinement is the documented objective of the reported assignment (spec level)

`MinorInst.specMinor I act` (`Model/MinorSpec.lean`) computes the documented objective from the
reported assignment alone: which copies are selected (`A`), which definition variants they keep
(`K`), which variants they gain (`N`), which copy each read-phase pattern is attributed to (`PH`).
It reads no product helper, error variable or absolute-value helper.

`minor_optimum_score_is_spec`: for every instance, the objective of **any optimum** of the model
`solve_minor_model` builds equals `specMinor` of the assignment that optimum reports.
-/

namespace Aldy
open MinorInst

theorem absM_eq_abs (x : Rat) : absM x = |x| := by
  unfold absM
  split_ifs with h
  · exact (abs_of_neg h).symm
  · exact (abs_of_nonneg (not_lt.mp h)).symm

/-- the assignment a point reports -/
def actOf (σ : NVar → Rat) (v : NVar) : Bool := decide (σ v = 1)

theorem bin_eq_b2r {x : Rat} (h : IsBin x) : x = b2r (decide (x = 1)) := by
  rcases h with h0 | h1
  · simp [h0, b2r]
  · simp [h1, b2r]

theorem b2r_and (a b : Bool) : b2r (a && b) = if a = true ∧ b = true then 1 else 0 := by
  cases a <;> cases b <;> simp [b2r]

/-- the product helper of an addable variant is 1 exactly if the copy is selected and gains it -/
theorem minor_products_exact_N (I : MinorInst) (σ : NVar → Rat) (h : I.build.Sat σ) (cs : MinorCand × MSlot)
    (hcs : cs ∈ I.slots) (m : Mut) (hm : m ∈ I.newMuts cs.1) :
    (σ (.MULN m cs.2) = 1 ↔ σ (.A cs.2) = 1 ∧ σ (.N m cs.2) = 1) := by
  have hN := sat_N I σ h cs hcs m hm
  have hA := sat_A I σ h cs hcs
  obtain ⟨hmm, hcond⟩ := List.mem_filter.mp hm
  simp only [Bool.and_eq_true, Bool.not_eq_true'] at hcond
  have hp : ∀ c ∈ prodCons (NVar.MULN m cs.2) [NVar.A cs.2, NVar.N m cs.2], c.holds σ := by
    intro c hc
    apply h.2
    apply mem_build
    refine Or.inr (Or.inr (Or.inl ?_))
    simp only [consPROD, List.mem_flatMap]
    refine ⟨m, hmm, cs, hcs, ?_⟩
    simp only [hcond.2, Bool.false_eq_true, if_false, hcond.1, if_true]
    exact hc
  have := (prod_gadget σ _ _ hN.2 (by
    intro t ht
    simp only [List.mem_cons, List.mem_nil_iff, or_false] at ht
    rcases ht with rfl | rfl
    · exact hA
    · exact hN.1)).mp hp
  rw [this]
  simp

section Terms
variable (I : MinorInst) (σ : NVar → Rat) (h : I.build.Sat σ)
  (hdef : ∀ cs ∈ I.slots, ∀ m ∈ cs.1.defMuts, m ∈ I.mutations)
include h hdef

theorem mulk_value (cs : MinorCand × MSlot) (hcs : cs ∈ I.slots) (m : Mut) (hm : m ∈ cs.1.defMuts) :
    σ (.MULK m cs.2) = b2r (actOf σ (.A cs.2) && actOf σ (.K m cs.2)) := by
  have hb := (sat_K I σ h cs hcs m hm).2
  have hx := minor_products_exact I σ h cs hcs m hm (hdef cs hcs m hm)
  rw [bin_eq_b2r hb]
  congr 1
  simp only [actOf, Bool.and_eq_true, decide_eq_true_eq, Bool.decide_eq_true]
  rw [Bool.eq_iff_iff]
  simp only [decide_eq_true_eq, Bool.and_eq_true]
  exact hx

theorem muln_value (cs : MinorCand × MSlot) (hcs : cs ∈ I.slots) (m : Mut) (hm : m ∈ I.newMuts cs.1) :
    σ (.MULN m cs.2) = b2r (actOf σ (.A cs.2) && actOf σ (.N m cs.2)) := by
  have hb := (sat_N I σ h cs hcs m hm).2
  have hx := minor_products_exact_N I σ h cs hcs m hm
  rw [bin_eq_b2r hb]
  congr 1
  rw [Bool.eq_iff_iff]
  simp only [actOf, decide_eq_true_eq, Bool.and_eq_true]
  exact hx

theorem varTerms_value (m : Mut) (hm : m ∈ I.mutations) :
    evalTerms σ (I.varTerms m) = I.carriedBy (actOf σ) m := by
  unfold MinorInst.varTerms MinorInst.carriedBy
  rw [evalTerms_filterMap_sum]
  apply sum_map_congr
  intro cs hcs
  unfold MinorInst.carriesB
  by_cases h1 : m ∈ cs.1.defMuts
  · have hc : cs.1.defMuts.contains m = true := by simpa using h1
    simp only [hc, if_true, Option.elim, MinorInst.one, one_mul]
    exact mulk_value I σ h hdef cs hcs m h1
  · have hc : cs.1.defMuts.contains m = false := by simpa using h1
    simp only [hc, Bool.false_eq_true, if_false]
    by_cases h2 : I.hasCov cs.1 m.pos = true
    · have hnew : m ∈ I.newMuts cs.1 := List.mem_filter.mpr ⟨hm, by simp only [h2, Bool.true_and, Bool.not_eq_true']; exact hc⟩
      simp only [h2, if_true, Option.elim, MinorInst.one, one_mul, Bool.true_and]
      exact muln_value I σ h hdef cs hcs m hnew
    · have h2' : I.hasCov cs.1 m.pos = false := by simpa using h2
      simp [h2', b2r]

theorem refTerms_value (pos : Int) : evalTerms σ (I.refTerms pos) = I.refBy (actOf σ) pos := by
  unfold MinorInst.refTerms MinorInst.refBy
  rw [evalTerms_flatMap_sum]
  apply sum_map_congr
  intro cs hcs
  have hA : σ (.A cs.2) = b2r (actOf σ (.A cs.2)) := bin_eq_b2r (sat_A I σ h cs hcs)
  have hnew : evalTerms σ ((I.newAt cs.1 pos).map fun m => MinorInst.neg (.MULN m cs.2)) =
      -((I.newAt cs.1 pos).map fun m => b2r (actOf σ (.A cs.2) && actOf σ (.N m cs.2))).sum := by
    rw [evalTerms_map_sum]
    have : ∀ l : List Mut, (∀ m ∈ l, m ∈ I.newMuts cs.1) →
        (l.map fun m => (MinorInst.neg (NVar.MULN m cs.2)).1 * σ (MinorInst.neg (NVar.MULN m cs.2)).2).sum =
        -(l.map fun m => b2r (actOf σ (.A cs.2) && actOf σ (.N m cs.2))).sum := by
      intro l hl
      induction l with
      | nil => simp
      | cons x xs ih =>
        simp only [List.map_cons, List.sum_cons, MinorInst.neg]
        rw [muln_value I σ h hdef cs hcs x (hl x (by simp))]
        have := ih (fun y hy => hl y (by simp [hy]))
        simp only [MinorInst.neg] at this
        rw [this]
        ring
    exact this _ (fun m hm => (List.mem_filter.mp hm).1)
  by_cases hc : I.hasCov cs.1 pos = true
  · simp only [hc, Bool.not_true, Bool.false_eq_true, if_false]
    cases hp : presentAt cs.1 pos with
    | nil =>
      simp only [evalTerms_cons, MinorInst.one, one_mul, hnew, hA]
      ring
    | cons p ps =>
      have hpm : p ∈ cs.1.defMuts := by
        have : p ∈ presentAt cs.1 pos := by rw [hp]; simp
        exact (List.mem_filter.mp this).1
      simp only [evalTerms_append, evalTerms_cons, evalTerms_nil, MinorInst.one, MinorInst.neg, one_mul, hA]
      rw [mulk_value I σ h hdef cs hcs p hpm]
      have := hnew
      simp only [MinorInst.neg] at this
      rw [this]
      ring
  · simp [hc]

end Terms

/-- **minor_optimum_score_is_spec** the objective of any optimum of the refinement model is the
documented objective of the assignment it reports, computed from that assignment alone -/
theorem minor_optimum_score_is_spec (I : MinorInst) (σ : NVar → Rat) (h : I.build.Sat σ)
    (hopt : ∀ τ, I.build.Sat τ → I.build.objective σ ≤ I.build.objective τ)
    (hdef : ∀ cs ∈ I.slots, ∀ m ∈ cs.1.defMuts, m ∈ I.mutations) :
    I.build.objective σ = I.specMinor (actOf σ) := by
  rw [minor_optimum_score_is_documented I σ h hopt]
  unfold MinorInst.specMinor
  -- rows
  have r1 : (I.mutations.map fun m => |I.observed m - evalTerms σ (I.varTerms m)|) =
      I.mutations.map fun m => absM (I.observed m - I.carriedBy (actOf σ) m) := by
    apply List.map_congr_left
    intro m hm
    rw [varTerms_value I σ h hdef m hm, absM_eq_abs]
  have r2 : (I.positions.map fun pos => |I.observed (refMut' pos) - evalTerms σ (I.refTerms pos)|) =
      I.positions.map fun pos => absM (I.observed (refMut' pos) - I.refBy (actOf σ) pos) := by
    apply List.map_congr_left
    intro pos _
    rw [refTerms_value I σ h hdef pos, absM_eq_abs]
  -- dropped
  have r3 : (I.slots.map fun cs => (cs.1.defMuts.map fun m => σ (.A cs.2) - σ (.MULK m cs.2)).sum) =
      I.slots.map fun cs => (cs.1.defMuts.map fun m => b2r (actOf σ (.A cs.2) && !actOf σ (.K m cs.2))).sum := by
    apply List.map_congr_left
    intro cs hcs
    congr 1
    apply List.map_congr_left
    intro m hm
    rw [minor_dropped_term I σ h cs hcs m hm (hdef cs hcs m hm)]
    have hK := (sat_K I σ h cs hcs m hm).1
    simp only [actOf, b2r]
    rcases hK with k0 | k1
    · by_cases hA : σ (.A cs.2) = 1 <;> simp [hA, k0]
    · by_cases hA : σ (.A cs.2) = 1 <;> simp [hA, k1]
  -- additions
  have r4 : (I.newSelectors.zipIdx.map fun e =>
        I.minorAdd * (1 + (e.2 : Rat) / Const.MINOR_TIEBREAK_DIV) * σ (.N e.1.1 e.1.2)) =
      I.newSelectors.zipIdx.map fun e =>
        I.minorAdd * (1 + (e.2 : Rat) / Const.MINOR_TIEBREAK_DIV) * b2r (actOf σ (.N e.1.1 e.1.2)) := by
    apply List.map_congr_left
    intro e he
    have hmem : e.1 ∈ I.newSelectors := (List.of_mem_zip ((List.zipIdx_eq_zip_range' ..) ▸ he)).1
    obtain ⟨cs, hcs, hm⟩ := List.mem_flatMap.mp hmem
    obtain ⟨m, hmm, heq⟩ := List.mem_map.mp hm
    have h1 : e.1.1 = m := by rw [← heq]
    have h2 : e.1.2 = cs.2 := by rw [← heq]
    rw [h1, h2]
    have hN := (sat_N I σ h cs hcs m hmm).1
    rw [show actOf σ (.N m cs.2) = decide (σ (.N m cs.2) = 1) from rfl, ← bin_eq_b2r hN]
  -- novel core
  have r5 : sumVars σ (I.novelMuts.map NVar.VNEWOR) =
      ((I.novelMuts.filter fun m => (I.novelCoreSel m).any (actOf σ)).length : Rat) := by
    have : ∀ l : List Mut, (∀ m ∈ l, m ∈ I.novelMuts) →
        sumVars σ (l.map NVar.VNEWOR) = ((l.filter fun m => (I.novelCoreSel m).any (actOf σ)).length : Rat) := by
      intro l hl
      induction l with
      | nil => simp
      | cons x xs ih =>
        have hx := hl x (by simp)
        have ih' := ih (fun y hy => hl y (by simp [hy]))
        have hb : IsBin (σ (.VNEWOR x)) := h.1 (NVar.VNEWOR x, Kind.bin) (by
          simp only [MinorInst.build, List.mem_append, List.mem_map]
          exact Or.inl (Or.inr ⟨x, hx, rfl⟩))
        have hex := minor_vnewor_exact I σ h x hx
        simp only [List.map_cons, sumVars_cons, ih', List.filter_cons]
        by_cases hany : (I.novelCoreSel x).any (actOf σ) = true
        · have : σ (.VNEWOR x) = 1 := by
            apply hex.mpr
            obtain ⟨v, hv, hact⟩ := List.any_eq_true.mp hany
            exact ⟨v, hv, by simpa [actOf] using hact⟩
          simp [hany, this]; ring
        · have hne : ¬ σ (.VNEWOR x) = 1 := by
            intro h1
            obtain ⟨v, hv, hv1⟩ := hex.mp h1
            exact hany (List.any_eq_true.mpr ⟨v, hv, by simp [actOf, hv1]⟩)
          have h0 : σ (.VNEWOR x) = 0 := by
            rcases hb with h0 | h1
            · exact h0
            · exact absurd h1 hne
          simp [hany, h0]
    exact this _ (fun m hm => hm)
  -- phase
  have r6 : (I.phaseCells.map fun c => (c.cnt : Rat) *
        (((c.pos.zipIdx).map fun vi => σ (.PH c.ai c.ri) - σ (.PH2 c.ai c.ri vi.2)).sum +
         ((c.neg.zipIdx).map fun vi => σ (.PH3 c.ai c.ri vi.2)).sum)) =
      I.phaseCells.map fun c => (c.cnt : Rat) *
        (((c.pos.zipIdx).map fun vi => b2r (actOf σ (.PH c.ai c.ri) && !actOf σ vi.1)).sum +
         ((c.neg.zipIdx).map fun vi => b2r (actOf σ (.PH c.ai c.ri) && actOf σ vi.1)).sum) := by
    apply List.map_congr_left
    intro c hc
    obtain ⟨hp, hn⟩ := minor_phase_terms I σ h c hc
    have hsel := phase_selector_bin I σ h c hc
    congr 2
    · congr 1
      apply List.map_congr_left
      intro vi hvi
      rw [hp vi hvi]
      have hv : IsBin (σ vi.1) := hsel vi.1 (Or.inl (List.of_mem_zip ((List.zipIdx_eq_zip_range' ..) ▸ hvi)).1)
      simp only [actOf, b2r]
      rcases hv with v0 | v1
      · by_cases hP : σ (.PH c.ai c.ri) = 1 <;> simp [hP, v0]
      · by_cases hP : σ (.PH c.ai c.ri) = 1 <;> simp [hP, v1]
    · congr 1
      apply List.map_congr_left
      intro vi hvi
      rw [hn vi hvi]
      have hv : IsBin (σ vi.1) := hsel vi.1 (Or.inr (List.of_mem_zip ((List.zipIdx_eq_zip_range' ..) ▸ hvi)).1)
      simp only [actOf, b2r]
      rcases hv with v0 | v1
      · by_cases hP : σ (.PH c.ai c.ri) = 1 <;> simp [hP, v0]
      · by_cases hP : σ (.PH c.ai c.ri) = 1 <;> simp [hP, v1]
  rw [r1, r2, r3, r4, r5, r6]

/-- **planted_minor_optimum_spec_zero** with zero-error evidence (clauses `PlantedMinor`, Props/C01Minor) every
optimum of the refinement model reports an assignment of documented objective 0 -/
theorem planted_minor_optimum_spec_zero (I : MinorInst) (copies : String → String → Nat) (choose : Nat → Option Nat)
    (hP : PlantedMinor I copies choose) (σ : NVar → Rat) (h : I.build.Sat σ)
    (hopt : ∀ τ, I.build.Sat τ → I.build.objective σ ≤ I.build.objective τ)
    (hmiss : 0 ≤ I.minorMiss) (hadd : 0 ≤ I.minorAdd) (hph : 0 ≤ I.minorPhase)
    (hdef : ∀ cs ∈ I.slots, ∀ m ∈ cs.1.defMuts, m ∈ I.mutations) :
    I.build.objective σ = 0 ∧ I.specMinor (actOf σ) = 0 := by
  obtain ⟨hs, h0⟩ := planted_minor_zero I copies choose hP
  have hle : I.build.objective σ ≤ 0 := h0 ▸ hopt _ hs
  have hge := minor_objective_nonneg I σ h hmiss hadd hph hdef
  have e : I.build.objective σ = 0 := le_antisymm hle hge
  exact ⟨e, by rw [← minor_optimum_score_is_spec I σ h hopt hdef, e]⟩

end Aldy
