import Aldy.Lemmas.Planted
import Aldy.Model.Filters
import Aldy.Props.C04
import Aldy.Props.C06

/-!
# C01 — error-free reads from a catalogued genotype are called as that genotype

The pipeline is a composition; each link is a theorem about the model of one stage, and the
correspondence run (`harness/c01.py`) evaluates the hypotheses of the links on the real objects
of every simulated sample and compares the conclusion with what `genotype()` reports.

* evidence  : with uniform per-copy depth `d` the observed copy number of a row is the number
              of planted copies that carry it (`observed_of_uniform`)
* major     : the planted multiset is a feasible point of the major model with objective 0
              (`planted_major_feasible`); no feasible point has a negative objective
              (`major_objective_nonneg`), so the planted multiset is optimal; every point with
              objective 0 calls, for every row, exactly the observed number of carriers and
              flags nothing as novel (`major_zero_objective_exact`) - nothing added, nothing lost
* minor     : every feasible point with zero error rows carries every considered variant on
              exactly the observed number of copies (`minor_zero_error_exact`)
* selection : the best-score selection keeps every optimum (C10 `select_best_kept`) and the
              enumeration reports every optimum up to supersets (C05)
-/

namespace Aldy
open MajorInst

/-! ### evidence: uniform depth gives integral observed copy numbers -/

/-- **observed_of_uniform** if `c` of the `n` copies present at a position carry the row and
every copy contributes `d` reads there, the observed copy number `cov / (total / n)` is `c` -/
theorem observed_of_uniform (d c n : Rat) (hd : 0 < d) (hn : 0 < n) :
    (d * c) / ((d * n) / n) = c := by
  have hn' : n ≠ 0 := ne_of_gt hn
  have hd' : d ≠ 0 := ne_of_gt hd
  have h1 : d * n / n = d := by rw [mul_div_assoc, div_self hn', mul_one]
  rw [h1, mul_comm, mul_div_assoc, div_self hd', mul_one]

/-! ### major stage -/

/-- what it means for `k` (copies per candidate allele) to be a zero-error explanation of the
evidence of instance `I` -/
structure Planted (I : MajorInst) (k : String → Nat) : Prop where
  /-- no allele is planted more often than the structure has copies of its configuration -/
  fits : ∀ a ∈ I.alleles, k a.name ≤ max 1 (I.cn.count a.cnConfig)
  /-- the planted alleles fill the structure exactly -/
  fills : ∀ cc ∈ I.cn.solution,
    ((I.alleles.filter fun a => a.cnConfig == cc.1).map fun a => (k a.name : Rat)).sum = (cc.2 : Rat)
  /-- every variant row is observed on exactly the planted carriers -/
  variants : ∀ m ∈ I.funcMuts,
    I.observed m = ((I.alleles.filter fun a => a.func.contains m).map fun a => (k a.name : Rat)).sum
  /-- every observed variant is carried by a planted allele -/
  carried : ∀ m ∈ I.funcMuts, ∃ a ∈ I.alleles, a.func.contains m = true ∧ 0 < k a.name
  /-- every reference row is observed on exactly the planted reference carriers -/
  reference : ∀ pos ∈ I.positions,
    I.observed (refMut pos) =
      ((I.alleles.filter fun a =>
          I.gene.hasCoverage a.name pos && !(a.func.any fun ma => ma.pos == pos && !ma.isIns)).map
        fun a => (k a.name : Rat)).sum

theorem slots_filter_sum (I : MajorInst) (k : String → Nat) (P : MajorA → Bool)
    (hfit : ∀ a ∈ I.alleles, k a.name ≤ max 1 (I.cn.count a.cnConfig)) :
    sumVars (plantedσ I k) ((I.slots.filter fun s => P s.1).map va) =
      ((I.alleles.filter P).map fun a => (k a.name : Rat)).sum :=
  planted_sum_slots I k P I.alleles hfit

theorem planted_N (I : MajorInst) (k : String → Nat) (m : Mut) : plantedσ I k (.N m) = 0 := rfl
theorem planted_E (I : MajorInst) (k : String → Nat) (m : Mut) : plantedσ I k (.E m) = 0 := rfl
theorem planted_ABS (I : MajorInst) (k : String → Nat) (m : Mut) : plantedσ I k (.ABS m) = 0 := rfl
theorem planted_NOVEL (I : MajorInst) (k : String → Nat) : plantedσ I k .NOVEL = 0 := rfl
theorem planted_XOR (I : MajorInst) (k : String → Nat) (m : Mut) : plantedσ I k (.XOR m) = 1 := rfl

theorem sumVars_planted_N (I : MajorInst) (k : String → Nat) (ms : List Mut) :
    sumVars (plantedσ I k) (ms.map MVar.N) = 0 := by
  apply sumVars_zero_of_all_zero
  intro x hx
  obtain ⟨m, _, rfl⟩ := List.mem_map.mp hx
  rfl

/-- **planted_major_feasible** a zero-error explanation of the evidence is a feasible point of
the model `solve_major_model` builds, with objective 0 -/
theorem planted_major_feasible (I : MajorInst) (k : String → Nat) (hP : Planted I k) :
    I.build.Sat (plantedσ I k) ∧ I.build.objective (plantedσ I k) = 0 := by
  set σ := plantedσ I k with hσ
  have hOR1 : ∀ m ∈ I.funcMuts, σ (.OR m) = 1 := by
    intro m hm
    obtain ⟨a, ha, hc, hk⟩ := hP.carried m hm
    simp only [hσ, plantedσ]
    rw [if_pos]
    exact List.any_eq_true.mpr ⟨a, ha, by simpa [hk] using hc⟩
  have hsat : I.build.Sat σ := by
   refine ⟨?_, ?_⟩
   · -- variable kinds
     intro vk hvk
     simp only [MajorInst.build, List.mem_append, List.mem_map, List.mem_flatMap, List.mem_singleton] at hvk
     rcases hvk with ((((⟨s, _, rfl⟩ | ⟨m, _, rfl⟩) | ⟨m, _, rfl⟩) | ⟨m, _, hm⟩) | ⟨m, _, rfl⟩) | rfl
     · exact planted_A_bin I k _ _
     · simp [Kind.ok]
     · exact Or.inl rfl
     · simp only [List.mem_cons, List.mem_nil_iff, or_false] at hm
       rcases hm with rfl | rfl
       · exact planted_OR_bin I k m
       · exact Or.inr rfl
     · refine ⟨?_, by intro u h; cases h⟩
       intro l h
       cases h
       exact le_refl _
     · exact Or.inl rfl
   · -- constraints
     intro c hc
     simp only [MajorInst.build, List.mem_append] at hc
     rcases hc with (((((hc | hc) | hc) | hc) | hc) | hc) | hc
     · -- CORD
       obtain ⟨s, hs, rfl⟩ := List.mem_map.mp hc
       rw [leVar_holds]
       have hpos : s.2 > 0 := by simpa using (List.mem_filter.mp hs).2
       simp only [hσ, va, plantedσ]
       by_cases h1 : s.2 < k s.1.name
       · have h2 : s.2 - 1 < k s.1.name := by omega
         simp [h1, h2]
       · simp only [h1, if_false]
         split_ifs <;> norm_num
     · -- CONE
       obtain ⟨pos, _, rfl⟩ := List.mem_map.mp hc
       simp only [LinCon.holds, evalTerms_ones, hσ, sumVars_planted_N]
       norm_num
     · -- CFUNC
       simp only [consCFUNC, List.mem_append, List.mem_flatMap] at hc
       rcases hc with ⟨m, hm, hc⟩ | ⟨pos, hp, hc⟩
       · have hsum : sumVars σ ((I.carriers m).map va) = I.observed m := by
           rw [hP.variants m hm]
           exact slots_filter_sum I k (fun a => a.func.contains m) hP.fits
         simp only [eqCons, List.mem_cons, List.mem_nil_iff, or_false] at hc
         rcases hc with rfl | rfl <;>
           simp only [LinCon.holds, evalTerms_append, evalTerms_ones, evalTerms_cons, evalTerms_nil, hsum] <;>
           simp [hσ, planted_N, planted_E]
       · have hsum : sumVars σ ((I.refCarriers pos).map va) = I.observed (refMut pos) := by
           rw [hP.reference pos hp]
           exact slots_filter_sum I k
             (fun a => I.gene.hasCoverage a.name pos && !(a.func.any fun ma => ma.pos == pos && !ma.isIns)) hP.fits
         simp only [eqCons, List.mem_cons, List.mem_nil_iff, or_false] at hc
         rcases hc with rfl | rfl <;>
           simp only [LinCon.holds, evalTerms_append, evalTerms_ones, evalTerms_cons, evalTerms_nil, hsum] <;>
           simp [hσ, planted_E]
     · -- CSAT
       obtain ⟨cc, hcc, hc⟩ := List.mem_flatMap.mp hc
       have hsum : sumVars σ ((I.slots.filter fun s => s.1.cnConfig == cc.1).map va) = (cc.2 : Rat) := by
         rw [← hP.fills cc hcc]
         exact slots_filter_sum I k (fun a => a.cnConfig == cc.1) hP.fits
       simp only [eqCons, List.mem_cons, List.mem_nil_iff, or_false] at hc
       rcases hc with rfl | rfl <;> simp only [LinCon.holds, evalTerms_ones, hsum] <;> exact le_refl _
     · -- XOR / OR
       obtain ⟨m, hm, hc⟩ := List.mem_flatMap.mp hc
       rcases List.mem_append.mp hc with hc | hc
       · have hbin : ∀ x ∈ (I.carriers m).map va, IsBin (σ x) := by
           intro x hx
           obtain ⟨s, _, rfl⟩ := List.mem_map.mp hx
           exact planted_A_bin I k _ _
         refine (or_gadget σ (.OR m) _ (planted_OR_bin I k m) hbin).mpr ?_ c hc
         constructor
         · intro _
           obtain ⟨a, ha, hca, hk⟩ := hP.carried m hm
           refine ⟨va (a, 0), ?_, ?_⟩
           · refine List.mem_map.mpr ⟨(a, 0), ?_, rfl⟩
             refine List.mem_filter.mpr ⟨?_, by simpa using hca⟩
             exact List.mem_flatMap.mpr ⟨a, ha, List.mem_map.mpr ⟨0, by simp [MajorInst.copies], rfl⟩⟩
           · simp [hσ, va, plantedσ, hk]
         · intro _
           exact hOR1 m hm
       · refine (xor_gadget σ (.XOR m) (.N m) (.OR m) (Or.inr rfl) (Or.inl rfl) (planted_OR_bin I k m)).mpr ?_ c hc
         refine ⟨rfl, ?_⟩
         rw [hOR1 m hm]
         simp [hσ, planted_N]
     · -- ABS
       obtain ⟨m, _, hc⟩ := List.mem_flatMap.mp hc
       refine (abs_gadget σ (.ABS m) (.E m)).mpr ?_ c hc
       simp [hσ, planted_E, planted_ABS]
     · -- NOVEL
       simp only [consNOVEL, List.mem_append, List.mem_map, List.mem_singleton] at hc
       rcases hc with ⟨m, _, rfl⟩ | rfl
       · simp [LinCon.holds, hσ, planted_NOVEL, planted_N]
       · simp only [LinCon.holds, evalTerms_cons]
         have : evalTerms σ (I.funcMuts.map fun m => ((-1 : Rat), MVar.N m)) = 0 := by
           have := evalTerms_map_coeff σ (-1 : Rat) (I.funcMuts.map MVar.N)
           rw [List.map_map] at this
           rw [show (fun m => ((-1 : Rat), MVar.N m)) = ((fun x => ((-1 : Rat), x)) ∘ MVar.N) from rfl, this,
             hσ, sumVars_planted_N]
           ring
         rw [this]
         simp [hσ, planted_NOVEL]
  refine ⟨hsat, ?_⟩
  rw [(major_score_closed_form I σ hsat).1]
  have h1 : (I.errRows.map fun m => σ (.ABS m)).sum = 0 := by
    have : (I.errRows.map fun m => σ (.ABS m)) = I.errRows.map fun _ => (0 : Rat) :=
      List.map_congr_left (fun m _ => rfl)
    rw [this]
    induction I.errRows with
    | nil => simp
    | cons x xs ih => simp only [List.map_cons, List.sum_cons, ih, add_zero]
  rw [h1, hσ, sumVars_planted_N, planted_NOVEL]
  ring

theorem list_sum_nonneg (l : List Rat) (h : ∀ x ∈ l, 0 ≤ x) : 0 ≤ l.sum := by
  induction l with
  | nil => simp
  | cons x xs ih =>
    have h1 := h x (by simp)
    have h2 := ih (fun y hy => h y (by simp [hy]))
    simp only [List.sum_cons]; linarith

/-- **major_objective_nonneg** no feasible point scores below 0 -/
theorem major_objective_nonneg (I : MajorInst) (σ : MVar → Rat) (h : I.build.Sat σ) (hn : 0 ≤ I.majorNovel) :
    0 ≤ I.build.objective σ := by
  obtain ⟨hcf, hle⟩ := major_score_closed_form I σ h
  rw [hcf]
  have habs : 0 ≤ (I.errRows.map fun m => |σ (.E m)|).sum := by
    apply list_sum_nonneg
    intro x hx
    obtain ⟨m, _, rfl⟩ := List.mem_map.mp hx
    exact abs_nonneg _
  have hZ : IsBin (σ .NOVEL) := h.1 (MVar.NOVEL, Kind.bin) (by simp [MajorInst.build])
  have hN : 0 ≤ sumVars σ (I.funcMuts.map MVar.N) := by
    apply sumVars_nonneg
    intro v hv
    obtain ⟨m, hm, rfl⟩ := List.mem_map.mp hv
    exact I.sat_bin_N h hm
  have := major_novel_each_pos
  have h1 : 0 ≤ I.majorNovel * σ .NOVEL := mul_nonneg hn hZ.nonneg
  have h2 : 0 ≤ Const.MAJOR_NOVEL_EACH * sumVars σ (I.funcMuts.map MVar.N) := mul_nonneg (le_of_lt this) hN
  linarith

theorem sum_nonneg_eq_zero {α : Type} (l : List α) (f : α → Rat) (hf : ∀ x ∈ l, 0 ≤ f x)
    (h : (l.map f).sum ≤ 0) : ∀ x ∈ l, f x = 0 := by
  induction l with
  | nil => intro x hx; cases hx
  | cons y ys ih =>
    simp only [List.map_cons, List.sum_cons] at h
    have hy := hf y (by simp)
    have hys : 0 ≤ (ys.map f).sum := by
      apply list_sum_nonneg
      intro x hx
      obtain ⟨z, hz, rfl⟩ := List.mem_map.mp hx
      exact hf z (by simp [hz])
    intro x hx
    rcases List.mem_cons.mp hx with rfl | hx
    · linarith
    · exact ih (fun z hz => hf z (by simp [hz])) (by linarith) x hx

/-- **major_zero_objective_exact** a feasible point that scores 0 calls, for every variant row,
exactly the observed number of carriers, for every reference row exactly the observed number of
reference copies, and flags no variant as novel: nothing is added and nothing is lost -/
theorem major_zero_objective_exact (I : MajorInst) (σ : MVar → Rat) (h : I.build.Sat σ) (hn : 0 ≤ I.majorNovel)
    (h0 : I.build.objective σ ≤ 0) :
    (∀ m ∈ I.funcMuts, sumVars σ ((I.carriers m).map va) = I.observed m ∧ σ (.N m) = 0) ∧
    (∀ pos ∈ I.positions, sumVars σ ((I.refCarriers pos).map va) = I.observed (refMut pos)) := by
  obtain ⟨hcf, hle⟩ := major_score_closed_form I σ h
  obtain ⟨hrows, hrefs⟩ := major_error_rows I σ h
  have hZ : IsBin (σ .NOVEL) := h.1 (MVar.NOVEL, Kind.bin) (by simp [MajorInst.build])
  have hNbin : ∀ v ∈ I.funcMuts.map MVar.N, IsBin (σ v) := by
    intro v hv
    obtain ⟨m, hm, rfl⟩ := List.mem_map.mp hv
    exact I.sat_bin_N h hm
  have hN : 0 ≤ sumVars σ (I.funcMuts.map MVar.N) := sumVars_nonneg σ _ hNbin
  have hpos := major_novel_each_pos
  have h1 : 0 ≤ I.majorNovel * σ .NOVEL := mul_nonneg hn hZ.nonneg
  have h2 : 0 ≤ Const.MAJOR_NOVEL_EACH * sumVars σ (I.funcMuts.map MVar.N) := mul_nonneg (le_of_lt hpos) hN
  have habs0 : 0 ≤ (I.errRows.map fun m => |σ (.E m)|).sum := by
    apply list_sum_nonneg
    intro x hx
    obtain ⟨m, _, rfl⟩ := List.mem_map.mp hx
    exact abs_nonneg _
  rw [hcf] at h0
  have hE : (I.errRows.map fun m => |σ (.E m)|).sum ≤ 0 := by linarith
  have hEz := sum_nonneg_eq_zero I.errRows (fun m => |σ (.E m)|) (fun m _ => abs_nonneg _) hE
  have hNsum : sumVars σ (I.funcMuts.map MVar.N) ≤ 0 := by
    by_contra hc
    push Not at hc
    have : 0 < Const.MAJOR_NOVEL_EACH * sumVars σ (I.funcMuts.map MVar.N) := mul_pos hpos hc
    linarith
  have hNz : ∀ m ∈ I.funcMuts, σ (.N m) = 0 := by
    have := sum_nonneg_eq_zero (I.funcMuts.map MVar.N) σ (fun v hv => (hNbin v hv).nonneg)
      (by simpa [sumVars] using hNsum)
    intro m hm
    exact this _ (List.mem_map.mpr ⟨m, hm, rfl⟩)
  constructor
  · intro m hm
    have e0 : σ (.E m) = 0 := abs_eq_zero.mp (hEz m (by simp [errRows, hm]))
    have := (hrows m hm).1
    rw [e0, hNz m hm] at this
    exact ⟨by linarith, hNz m hm⟩
  · intro pos hp
    have e0 : σ (.E (refMut pos)) = 0 :=
      abs_eq_zero.mp (hEz _ (by simp only [errRows, List.mem_append, List.mem_map]; exact Or.inr ⟨pos, hp, rfl⟩))
    have := (hrefs pos hp).1
    rw [e0] at this
    linarith

/-- **planted_major_optimal** the planted multiset is an optimum of the major model -/
theorem planted_major_optimal (I : MajorInst) (k : String → Nat) (hP : Planted I k) (hn : 0 ≤ I.majorNovel)
    (τ : MVar → Rat) (hτ : I.build.Sat τ) : I.build.objective (plantedσ I k) ≤ I.build.objective τ := by
  rw [(planted_major_feasible I k hP).2]
  exact major_objective_nonneg I τ hτ hn

/-- **major_optima_carry_planted_variants** with zero-error evidence every optimum of the major
model calls, for every variant row, as many carriers as were planted (and as many reference
copies), and no novel variant: the called variants, counted with multiplicity, are the planted ones -/
theorem major_optima_carry_planted_variants (I : MajorInst) (k : String → Nat) (hP : Planted I k)
    (hn : 0 ≤ I.majorNovel) (σ : MVar → Rat) (h : I.build.Sat σ)
    (hopt : ∀ τ, I.build.Sat τ → I.build.objective σ ≤ I.build.objective τ) :
    (∀ m ∈ I.funcMuts,
        sumVars σ ((I.carriers m).map va) =
          ((I.alleles.filter fun a => a.func.contains m).map fun a => (k a.name : Rat)).sum ∧ σ (.N m) = 0) ∧
    (∀ pos ∈ I.positions,
        sumVars σ ((I.refCarriers pos).map va) =
          ((I.alleles.filter fun a =>
              I.gene.hasCoverage a.name pos && !(a.func.any fun ma => ma.pos == pos && !ma.isIns)).map
            fun a => (k a.name : Rat)).sum) := by
  obtain ⟨hsat, hobj⟩ := planted_major_feasible I k hP
  have h0 : I.build.objective σ ≤ 0 := by rw [← hobj]; exact hopt _ hsat
  obtain ⟨hv, hr⟩ := major_zero_objective_exact I σ h hn h0
  constructor
  · intro m hm
    rw [← hP.variants m hm]
    exact hv m hm
  · intro pos hp
    rw [← hP.reference pos hp]
    exact hr pos hp

/-! ### minor stage: the evidence filter keeps what the locus depth is made of -/

/-- the region test of the minor-stage evidence filter exempts the reference marker and the
deleted-base marker (regenerated from `default_filter_fn`); without the latter the reads of a
deletion-carrying copy vanish from the depth of a non-exonic deletion site and the reference row
counts the carriers as reference copies (found by this check, repaired in the repository) -/
theorem minor_filter_depth_markers : "_" ∈ Const.MINOR_FILTER_DEPTH_OPS ∧ "-" ∈ Const.MINOR_FILTER_DEPTH_OPS := by
  decide

/-- **minor_filter_keeps_deleted_bases** whatever the region and whatever variants are considered,
a deleted-base observation is subject to the depth thresholds only -/
theorem minor_filter_keeps_deleted_bases (g : GeneView) (p : ProfileV) (s : CNSol) (considered : List Mut) (c : Cov) (pos : Int) :
    minorFilterFn g p s considered c ⟨pos, "-"⟩ =
      .keep (c.basicFilter p ⟨pos, "-"⟩ (some p.cnMax) none &&
             c.basicFilter p ⟨pos, "-"⟩ (some ((s.positionCn g pos : Rat) + Const.MINOR_FILTER_CN_ADD)) none) := by
  have h : "-" ∈ Const.MINOR_FILTER_DEPTH_OPS := by decide
  have h2 : (("-" : String) != "_") = true := by decide
  simp [minorFilterFn, h, h2]

/-! ### minor stage: objective bound and exactness -/

section Minor
open MinorInst

theorem evalTerms_nonneg_terms {V : Type} (σ : V → Rat) (ts : List (Rat × V)) (h : ∀ t ∈ ts, 0 ≤ t.1 * σ t.2) :
    0 ≤ evalTerms σ ts := by
  induction ts with
  | nil => simp
  | cons t ts ih =>
    have h1 := h t (by simp)
    have h2 := ih (fun x hx => h x (by simp [hx]))
    simp only [evalTerms_cons]; linarith

theorem evalTerms_flatMap_nonneg {V α : Type} (σ : V → Rat) (l : List α) (f : α → List (Rat × V))
    (h : ∀ x ∈ l, 0 ≤ evalTerms σ (f x)) : 0 ≤ evalTerms σ (l.flatMap f) := by
  induction l with
  | nil => simp
  | cons x xs ih =>
    have h1 := h x (by simp)
    have h2 := ih (fun y hy => h y (by simp [hy]))
    rw [List.flatMap_cons, evalTerms_append]; linarith

theorem evalTerms_map_flatMap_nonneg {V α : Type} (σ : V → Rat) (l : List α) (f : α → Rat × V) (g : α → List (Rat × V))
    (h : ∀ x ∈ l, 0 ≤ (f x).1 * σ (f x).2 + evalTerms σ (g x)) :
    0 ≤ evalTerms σ (l.map f) + evalTerms σ (l.flatMap g) := by
  induction l with
  | nil => simp
  | cons x xs ih =>
    have h1 := h x (by simp)
    have h2 := ih (fun y hy => h y (by simp [hy]))
    rw [List.map_cons, List.flatMap_cons, evalTerms_cons, evalTerms_append]; linarith



theorem sumVars_le_length_mul {V : Type} (σ : V → Rat) (xs : List V) (c : Rat) (h : ∀ x ∈ xs, σ x ≤ c) :
    sumVars σ xs ≤ (xs.length : Rat) * c := by
  induction xs with
  | nil => simp
  | cons x xs ih =>
    have h1 := h x (by simp)
    have h2 := ih (fun y hy => h y (by simp [hy]))
    simp only [sumVars_cons, List.length_cons]; push_cast; linarith

theorem minor_abs_rows (I : MinorInst) (σ : NVar → Rat) (h : I.build.Sat σ) (m : Mut) (hm : m ∈ I.errRows) :
    |σ (.E m)| ≤ σ (.ABS m) := by
  apply (abs_gadget σ (.ABS m) (.E m)).mp
  intro c hc
  apply h.2
  apply mem_build
  refine Or.inr (Or.inr (Or.inr (Or.inr (Or.inr (Or.inr (Or.inr (Or.inr (Or.inr (Or.inr (Or.inr (Or.inr (Or.inl ?_))))))))))))
  simp only [MinorInst.consABS, List.mem_flatMap]
  exact ⟨m, hm, hc⟩

theorem minor_mulk_le_A (I : MinorInst) (σ : NVar → Rat) (h : I.build.Sat σ) (cs : MinorCand × MSlot)
    (hcs : cs ∈ I.slots) (m : Mut) (hm : m ∈ cs.1.defMuts) (hmm : m ∈ I.mutations) :
    σ (.MULK m cs.2) ≤ σ (.A cs.2) := by
  have hK := (sat_K I σ h cs hcs m hm).2
  have hA := sat_A I σ h cs hcs
  rcases hK with h0 | h1
  · rw [h0]; exact hA.nonneg
  · have := ((minor_products_exact I σ h cs hcs m hm hmm).mp h1).1
    rw [h1, this]

theorem minor_phase_bin (I : MinorInst) (σ : NVar → Rat) (h : I.build.Sat σ) (c : PhaseCell) (hc : c ∈ I.phaseCells) :
    IsBin (σ (.PH c.ai c.ri)) ∧ (∀ vi ∈ c.pos.zipIdx, IsBin (σ (.PH2 c.ai c.ri vi.2))) ∧
      (∀ vi ∈ c.neg.zipIdx, IsBin (σ (.PH3 c.ai c.ri vi.2))) := by
  refine ⟨?_, ?_, ?_⟩
  · exact h.1 (NVar.PH c.ai c.ri, Kind.bin) (by
      simp only [MinorInst.build, List.mem_append, List.mem_flatMap]
      exact Or.inr ⟨c, hc, by simp⟩)
  · intro vi hvi
    exact h.1 (NVar.PH2 c.ai c.ri vi.2, Kind.bin) (by
      simp only [MinorInst.build, List.mem_append, List.mem_flatMap]
      refine Or.inr ⟨c, hc, ?_⟩
      simp only [List.mem_cons, List.mem_map]
      exact Or.inl (Or.inr ⟨vi, hvi, rfl⟩))
  · intro vi hvi
    exact h.1 (NVar.PH3 c.ai c.ri vi.2, Kind.bin) (by
      simp only [MinorInst.build, List.mem_append, List.mem_flatMap]
      refine Or.inr ⟨c, hc, ?_⟩
      simp only [List.mem_cons, List.mem_map]
      exact Or.inr ⟨vi, hvi, rfl⟩)

theorem minor_ph2_le (I : MinorInst) (σ : NVar → Rat) (h : I.build.Sat σ) (c : PhaseCell) (hc : c ∈ I.phaseCells)
    (vi : NVar × Nat) (hvi : vi ∈ c.pos.zipIdx) : σ (.PH2 c.ai c.ri vi.2) ≤ σ (.PH c.ai c.ri) := by
  have hmem : leVar (NVar.PH2 c.ai c.ri vi.2) (NVar.PH c.ai c.ri) ∈ I.build.cons := by
    apply mem_build
    refine Or.inr (Or.inr (Or.inr (Or.inr (Or.inr (Or.inr (Or.inr (Or.inr (Or.inr (Or.inr (Or.inr (Or.inl ?_)))))))))))
    simp only [MinorInst.consPHASE, List.mem_append, List.mem_flatMap]
    refine Or.inl ⟨c, hc, ?_⟩
    simp only [List.mem_cons, List.mem_flatMap]
    refine Or.inl (Or.inr ⟨vi, hvi, ?_⟩)
    simp [prodCons]
  exact (leVar_holds σ _ _).mp (h.2 _ hmem)



theorem novel_div_pos : 0 < Const.MINOR_NOVEL_DIV := by unfold Const.MINOR_NOVEL_DIV; norm_num

/-- **minor_objective_ge_error** the objective of every feasible point of the refinement model is
at least the sum of its absolute row errors: the miss, add, novel-core and phase terms are never
negative -/
theorem minor_objective_ge_error (I : MinorInst) (σ : NVar → Rat) (h : I.build.Sat σ)
    (hmiss : 0 ≤ I.minorMiss) (hadd : 0 ≤ I.minorAdd) (hph : 0 ≤ I.minorPhase)
    (hdef : ∀ cs ∈ I.slots, ∀ m ∈ cs.1.defMuts, m ∈ I.mutations) :
    (I.errRows.map fun m => |σ (.E m)|).sum ≤ I.build.objective σ := by
  simp only [Ilp.objective, MinorInst.build, evalTerms_append]
  -- 1: error rows
  have e1 : (I.errRows.map fun m => |σ (.E m)|).sum ≤ evalTerms σ (I.errRows.map fun m => ((1 : Rat), NVar.ABS m)) := by
    have : evalTerms σ (I.errRows.map fun m => ((1 : Rat), NVar.ABS m)) = (I.errRows.map fun m => σ (.ABS m)).sum := by
      induction I.errRows with
      | nil => simp
      | cons m ms ih => simp [ih]
    rw [this]
    exact list_sum_le_sum _ _ _ (fun m hm => minor_abs_rows I σ h m hm)
  -- 2+3: miss terms
  have e2 : 0 ≤ evalTerms σ (I.slots.map fun cs => (I.minorMiss * (cs.1.defMuts.length : Rat), NVar.A cs.2)) +
      evalTerms σ (I.slots.flatMap fun cs => cs.1.defMuts.map fun m => (-I.minorMiss, NVar.MULK m cs.2)) := by
    apply evalTerms_map_flatMap_nonneg
    intro cs hcs
    have hsum : evalTerms σ (cs.1.defMuts.map fun m => (-I.minorMiss, NVar.MULK m cs.2)) =
        -I.minorMiss * sumVars σ (cs.1.defMuts.map fun m => NVar.MULK m cs.2) := by
      have := evalTerms_map_coeff σ (-I.minorMiss) (cs.1.defMuts.map fun m => NVar.MULK m cs.2)
      rw [List.map_map] at this
      exact this
    rw [hsum]
    have hle := sumVars_le_length_mul σ (cs.1.defMuts.map fun m => NVar.MULK m cs.2) (σ (.A cs.2)) (by
      intro x hx
      obtain ⟨m, hm, rfl⟩ := List.mem_map.mp hx
      exact minor_mulk_le_A I σ h cs hcs m hm (hdef cs hcs m hm))
    rw [List.length_map] at hle
    nlinarith
  -- 4: additions
  have hdiv := tiebreak_div_pos
  have e4 : 0 ≤ evalTerms σ (I.newSelectors.zipIdx.map fun e =>
      (I.minorAdd * (1 + (e.2 : Rat) / Const.MINOR_TIEBREAK_DIV), NVar.N e.1.1 e.1.2)) := by
    apply evalTerms_nonneg_terms
    intro t ht
    obtain ⟨e, he, rfl⟩ := List.mem_map.mp ht
    have hmem : e.1 ∈ I.newSelectors := by
      have := List.of_mem_zip ((List.zipIdx_eq_zip_range' ..) ▸ he)
      exact this.1
    obtain ⟨cs, hcs, hm⟩ := List.mem_flatMap.mp hmem
    obtain ⟨m, hmm, heq⟩ := List.mem_map.mp hm
    have h1 : e.1.1 = m := by rw [← heq]
    have h2 : e.1.2 = cs.2 := by rw [← heq]
    simp only [h1, h2]
    have hN := (sat_N I σ h cs hcs m hmm).1
    have hc : 0 ≤ 1 + (e.2 : Rat) / Const.MINOR_TIEBREAK_DIV := by
      have : 0 ≤ (e.2 : Rat) / Const.MINOR_TIEBREAK_DIV := div_nonneg (by positivity) (le_of_lt hdiv)
      linarith
    exact mul_nonneg (mul_nonneg hadd hc) hN.nonneg
  -- 5: novel core
  have e5 : 0 ≤ evalTerms σ (I.novelMuts.map fun m => (I.minorAdd / Const.MINOR_NOVEL_DIV, NVar.VNEWOR m)) := by
    apply evalTerms_nonneg_terms
    intro t ht
    obtain ⟨m, hm, rfl⟩ := List.mem_map.mp ht
    have hb : IsBin (σ (.VNEWOR m)) := h.1 (NVar.VNEWOR m, Kind.bin) (by
      simp only [MinorInst.build, List.mem_append, List.mem_map]
      exact Or.inl (Or.inr ⟨m, hm, rfl⟩))
    exact mul_nonneg (div_nonneg hadd (le_of_lt novel_div_pos)) hb.nonneg
  -- 6: phase
  have e6 : 0 ≤ evalTerms σ I.phaseObj := by
    unfold MinorInst.phaseObj
    apply evalTerms_flatMap_nonneg
    intro c hc
    rw [evalTerms_append]
    obtain ⟨hPH, hP2, hP3⟩ := minor_phase_bin I σ h c hc
    have hw : 0 ≤ I.minorPhase * (c.cnt : Rat) := mul_nonneg hph (by positivity)
    have a1 : 0 ≤ evalTerms σ ((c.pos.zipIdx).flatMap fun vi =>
        [(I.minorPhase * (c.cnt : Rat), NVar.PH c.ai c.ri), (-(I.minorPhase * (c.cnt : Rat)), NVar.PH2 c.ai c.ri vi.2)]) := by
      apply evalTerms_flatMap_nonneg
      intro vi hvi
      have := minor_ph2_le I σ h c hc vi hvi
      simp only [evalTerms_cons, evalTerms_nil]
      nlinarith
    have a2 : 0 ≤ evalTerms σ ((c.neg.zipIdx).map fun vi => (I.minorPhase * (c.cnt : Rat), NVar.PH3 c.ai c.ri vi.2)) := by
      apply evalTerms_nonneg_terms
      intro t ht
      obtain ⟨vi, hvi, rfl⟩ := List.mem_map.mp ht
      exact mul_nonneg hw (hP3 vi hvi).nonneg
    linarith
  linarith


/-- **minor_zero_objective_exact** a feasible point of the refinement model that scores 0 carries
every considered variant on exactly the observed number of copies (kept definition variants and
additions together): counted with multiplicity, nothing is added and nothing is lost -/
theorem minor_zero_objective_exact (I : MinorInst) (σ : NVar → Rat) (h : I.build.Sat σ)
    (hmiss : 0 ≤ I.minorMiss) (hadd : 0 ≤ I.minorAdd) (hph : 0 ≤ I.minorPhase)
    (hdef : ∀ cs ∈ I.slots, ∀ m ∈ cs.1.defMuts, m ∈ I.mutations)
    (h0 : I.build.objective σ ≤ 0) :
    ∀ m ∈ I.mutations, evalTerms σ (I.varTerms m) = I.observed m := by
  have hle := minor_objective_ge_error I σ h hmiss hadd hph hdef
  have hz := sum_nonneg_eq_zero I.errRows (fun m => |σ (.E m)|) (fun m _ => abs_nonneg _) (by linarith)
  intro m hm
  have e0 : σ (.E m) = 0 := abs_eq_zero.mp (hz m (by simp [MinorInst.errRows, hm]))
  have := (minor_error_rows I σ h m hm).1
  rw [e0] at this
  linarith

/-- **minor_optima_exact** if some feasible point scores 0 (for a simulated sample: the planted
point - the driver evaluates `MinorInst.plantedσ` in `MinorInst.build` on the real stage input),
every optimum carries every considered variant on exactly the observed number of copies -/
theorem minor_optima_exact (I : MinorInst) (σ τ : NVar → Rat) (h : I.build.Sat σ)
    (hmiss : 0 ≤ I.minorMiss) (hadd : 0 ≤ I.minorAdd) (hph : 0 ≤ I.minorPhase)
    (hdef : ∀ cs ∈ I.slots, ∀ m ∈ cs.1.defMuts, m ∈ I.mutations)
    (_hτ : I.build.Sat τ) (hτ0 : I.build.objective τ ≤ 0) (hopt : I.build.objective σ ≤ I.build.objective τ) :
    ∀ m ∈ I.mutations, evalTerms σ (I.varTerms m) = I.observed m :=
  minor_zero_objective_exact I σ h hmiss hadd hph hdef (le_trans hopt hτ0)

end Minor

/-- **plantedB_iff** the boolean the driver evaluates on the real stage inputs of a simulated
sample is exactly the hypothesis `Planted` of the theorems above -/
theorem plantedB_iff (I : MajorInst) (k : String → Nat) : plantedB I k = true ↔ Planted I k := by
  simp only [plantedB, plantedClauses, List.all_cons, List.all_nil, Bool.and_true, Bool.and_eq_true,
    List.all_eq_true, plantedSum, List.any_eq_true]
  constructor
  · rintro ⟨h1, h2, h3, h4, h5⟩
    exact ⟨fun a ha => of_decide_eq_true (h1 a ha), fun cc hc => of_decide_eq_true (h2 cc hc),
      fun m hm => of_decide_eq_true (h3 m hm), fun m hm => by
        obtain ⟨a, ha, hc⟩ := h4 m hm
        simp only [decide_eq_true_eq] at hc
        exact ⟨a, ha, hc.1, hc.2⟩, fun p hp => of_decide_eq_true (h5 p hp)⟩
  · intro h
    exact ⟨fun a ha => decide_eq_true (h.fits a ha), fun cc hc => decide_eq_true (h.fills cc hc),
      fun m hm => decide_eq_true (h.variants m hm), fun m hm => by
        obtain ⟨a, ha, hc, hk⟩ := h.carried m hm
        exact ⟨a, ha, by simp only [decide_eq_true_eq]; exact ⟨hc, hk⟩⟩,
      fun p hp => decide_eq_true (h.reference p hp)⟩

/-! ### non-vacuity: the example instance of C02 is planted by one copy of each allele -/

def exK : String → Nat := fun a => if a == "1" then 1 else if a == "2" then 1 else 0

example : Planted exInst exK := by
  refine ⟨?_, ?_, ?_, ?_, ?_⟩ <;> decide +kernel

example : exInst.build.objective (plantedσ exInst exK) = 0 := (planted_major_feasible exInst exK (by
  refine ⟨?_, ?_, ?_, ?_, ?_⟩ <;> decide +kernel)).2


end Aldy
