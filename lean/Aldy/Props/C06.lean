import Aldy.Model.Pileup
import Aldy.Props.C11
import Mathlib.Tactic.Linarith

/-!
# C06 — alignment evidence is a faithful pileup of the eligible reads

Theorems about `walk` / `parseRead` / `makeTable` (model of `_parse_read`, `_make_coverage`).
-/

namespace Aldy

/-- number of non-insertion observations at `p` -/
def depthAt (evs : List Ev) (p : Int) : Nat := (evs.filter fun e => e.pos == p && !opIsIns e.op).length

theorem depthAt_append (a b : List Ev) (p : Int) : depthAt (a ++ b) p = depthAt a p + depthAt b p := by
  simp [depthAt, List.filter_append]

theorem depthAt_nil (p : Int) : depthAt [] p = 0 := rfl

theorem opIsIns_sub (a b : Char) : opIsIns (strOf [a, '>', b]) = false := by
  simp [opIsIns, strOf, String.toList_ofList]

theorem opIsIns_ref : opIsIns "_" = false := by decide
theorem opIsIns_del : opIsIns "-" = false := by decide

theorem ind_step (start p : Int) (n : Nat) :
    (if start ≤ p ∧ p < start + (n : Int) then 1 else 0) + (if start + (n : Int) = p then 1 else 0) =
      (if start ≤ p ∧ p < start + ((n + 1 : Nat) : Int) then (1 : Nat) else 0) := by
  push_cast
  split_ifs <;> omega

theorem ind_concat (s p : Int) (a b : Nat) :
    (if s ≤ p ∧ p < s + (a : Int) then 1 else 0) + (if s + (a : Int) ≤ p ∧ p < s + (a : Int) + (b : Int) then 1 else 0) =
      (if s ≤ p ∧ p < s + ((a + b : Nat) : Int) then (1 : Nat) else 0) := by
  push_cast
  split_ifs <;> omega

theorem depthAt_single (q : Int) (op : String) (o : Obs) (p : Int) (h : opIsIns op = false) :
    depthAt [⟨q, op, o⟩] p = if q = p then 1 else 0 := by
  simp only [depthAt, List.filter_cons, List.filter_nil, h, Bool.not_false, Bool.and_true, beq_iff_eq]
  split <;> simp

/-- events of one deleted run: one per base -/
theorem depth_del_run (start : Int) (size : Nat) (o : Obs) (p : Int) :
    depthAt ((List.range size).map (fun (i : Nat) => (⟨start + (i : Int), "-", o⟩ : Ev))) p =
      if start ≤ p ∧ p < start + size then 1 else 0 := by
  induction size with
  | zero => simp [depthAt]
  | succ n ih =>
    rw [List.range_succ, List.map_append, depthAt_append, ih]
    simp only [List.map_cons, List.map_nil]
    rw [depthAt_single _ _ _ _ opIsIns_del]
    exact ind_step start p n

/-- the match loop adds exactly one non-insertion observation per position of the run -/
theorem walkMatch_depth (l : LocusV) (r : ReadV) (size : Nat) (s : WalkState) (p : Int) :
    depthAt (walkMatch l r size s).evs p = depthAt s.evs p + (if s.start ≤ p ∧ p < s.start + size then 1 else 0) ∧
    (walkMatch l r size s).start = s.start + size := by
  unfold walkMatch
  refine ⟨?_, rfl⟩
  simp only
  -- generalise the fold over `List.range size`
  have key : ∀ (n : Nat) (st0 : WalkState),
      depthAt ((List.range n).foldl (fun (st : WalkState) (i : Nat) =>
        let p' : Int := s.start + (i : Int)
        let q := qualAt r (s.sStart + i) st.prevQ
        let b := r.seq.getD (s.sStart + i) 'N'
        let o : Obs := (binQuality r.mq, binQuality q)
        if l.inGene p' && l.base p' != b then
          let op := strOf [l.base p', '>', b]
          { st with evs := st.evs ++ [⟨p', op, o⟩], dump := st.dump ++ [(p', op)],
                    phase := if l.phaseable.contains p' then st.phase ++ [(p', op)] else st.phase, prevQ := q }
        else
          { st with evs := st.evs ++ [⟨p', "_", o⟩],
                    phase := if l.phaseable.contains p' then st.phase ++ [(p', "_")] else st.phase, prevQ := q }) st0).evs p
      = depthAt st0.evs p + (if s.start ≤ p ∧ p < s.start + n then 1 else 0) := by
    intro n
    induction n with
    | zero => intro st0; simp
    | succ k ih =>
      intro st0
      rw [List.range_succ, List.foldl_append, List.foldl_cons, List.foldl_nil]
      simp only
      split
      · simp only [depthAt_append, ih]
        rw [depthAt_single _ _ _ _ (opIsIns_sub _ _), Nat.add_assoc]
        congr 1
        exact ind_step s.start p k
      · simp only [depthAt_append, ih]
        rw [depthAt_single _ _ _ _ opIsIns_ref, Nat.add_assoc]
        congr 1
        exact ind_step s.start p k
  exact key size s

theorem opIsIns_ins (cs : List Char) : opIsIns ("ins" ++ strOf cs) = true := by
  simp [opIsIns, strOf, String.toList_append, String.toList_ofList]

theorem ind_zero (s p : Int) : (if s ≤ p ∧ p < s + ((0 : Nat) : Int) then (1 : Nat) else 0) = 0 := by
  push_cast
  split_ifs <;> omega

theorem depthAt_ins (q : Int) (cs : List Char) (o : Obs) (p : Int) : depthAt [⟨q, "ins" ++ strOf cs, o⟩] p = 0 := by
  simp [depthAt, opIsIns_ins]

theorem not_match_1 : Const.PARSE_MATCH_OPS.contains 1 = false := by decide
theorem not_match_4 : Const.PARSE_MATCH_OPS.contains 4 = false := by decide

theorem not_mem_match_1 : 1 ∉ Const.PARSE_MATCH_OPS := by decide
theorem not_mem_match_4 : 4 ∉ Const.PARSE_MATCH_OPS := by decide

theorem walkOp_start (l : LocusV) (r : ReadV) (s : WalkState) (op size : Nat) :
    (walkOp l r s op size).start = s.start + consumes op size := by
  unfold walkOp consumes
  by_cases h2 : op = 2
  · subst h2; simp
  · by_cases h1 : op = 1
    · subst h1; simp [not_mem_match_1]
    · by_cases h4 : op = 4
      · subst h4; simp [not_mem_match_4]
      · by_cases hm : op ∈ Const.PARSE_MATCH_OPS
        · simp [h2, h1, h4, hm, (walkMatch_depth l r size s 0).2]
        · simp [h2, h1, h4, hm]

/-- one CIGAR operation: depth grows by the indicator of the reference run it consumes;
insertions and soft clips consume nothing -/
theorem walkOp_depth (l : LocusV) (r : ReadV) (s : WalkState) (op size : Nat) (p : Int) :
    depthAt (walkOp l r s op size).evs p =
      depthAt s.evs p + (if s.start ≤ p ∧ p < s.start + consumes op size then 1 else 0) := by
  unfold walkOp consumes
  by_cases h2 : op = 2
  · subst h2
    simp only [beq_self_eq_true, if_true, Bool.true_or]
    rw [depthAt_append, depth_del_run]
  · by_cases h1 : op = 1
    · subst h1
      simp only [show ((1 : Nat) == 2) = false by decide, Bool.false_eq_true, if_false, beq_self_eq_true, if_true,
        not_match_1, Bool.false_or]
      rw [depthAt_append, depthAt_ins, ind_zero]
    · by_cases h4 : op = 4
      · subst h4
        simp only [show ((4 : Nat) == 2) = false by decide, show ((4 : Nat) == 1) = false by decide, Bool.false_eq_true,
          if_false, beq_self_eq_true, if_true, not_match_4, Bool.false_or]
        rw [ind_zero]; rfl
      · have e2 : (op == 2) = false := by simpa using h2
        have e1 : (op == 1) = false := by simpa using h1
        have e4 : (op == 4) = false := by simpa using h4
        by_cases hm : Const.PARSE_MATCH_OPS.contains op = true
        · simp only [e2, e1, e4, Bool.false_eq_true, if_false, hm, if_true, Bool.false_or]
          exact (walkMatch_depth l r size s p).1
        · have hm' : Const.PARSE_MATCH_OPS.contains op = false := by simpa using hm
          simp only [e2, e1, e4, Bool.false_eq_true, if_false, hm', Bool.false_or]
          rw [ind_zero]; rfl

theorem refLen_cons (c : Nat × Nat) (cs : List (Nat × Nat)) : refLen (c :: cs) = consumes c.1 c.2 + refLen cs := by
  simp [refLen, consumes]

/-- **depth_one_read (walk)** for every read and position `p`: the CIGAR walk adds exactly one
non-insertion observation at `p` if `ref_start ≤ p < ref_start + reference length`, none otherwise
(matches, mismatches and deleted bases count once; insertions and soft clips consume no reference). -/
theorem depth_walk (l : LocusV) (r : ReadV) (p : Int) :
    depthAt (walk l r).evs p = if r.refStart ≤ p ∧ p < r.refStart + refLen r.cigar then 1 else 0 := by
  unfold walk
  have key : ∀ (cig : List (Nat × Nat)) (s : WalkState),
      depthAt (cig.foldl (fun s c => walkOp l r s c.1 c.2) s).evs p =
        depthAt s.evs p + (if s.start ≤ p ∧ p < s.start + refLen cig then 1 else 0) := by
    intro cig
    induction cig with
    | nil => intro s; simp [refLen]
    | cons c cs ih =>
      intro s
      rw [List.foldl_cons, ih, walkOp_depth l r s c.1 c.2 p, walkOp_start l r s c.1 c.2, refLen_cons]
      rw [Nat.add_assoc]
      congr 1
      exact ind_concat s.start p (consumes c.1 c.2) (refLen cs)
  have := key r.cigar { start := r.refStart, sStart := 0, prevQ := Const.PARSE_PREV_Q, evs := [], dump := [], phase := [] }
  simpa [depthAt_nil] using this

/-- **depth_one_read** the same for `parseRead` on a locus without multi-substitution sites. -/
theorem depth_one_read (l : LocusV) (hm : l.multiSites = []) (r : ReadV) (p : Int) :
    depthAt (parseRead l r).1 p = if r.refStart ≤ p ∧ p < r.refStart + refLen r.cigar then 1 else 0 := by
  unfold parseRead mergeMnp
  simp only [hm, List.foldl_nil]
  exact depth_walk l r p

/-- **cigar_split_invariant (depth)** splitting a run `(op, a + b)` into `(op, a), (op, b)`
leaves the reference length - hence every depth - unchanged. -/
theorem refLen_split (pre post : List (Nat × Nat)) (op a b : Nat) :
    refLen (pre ++ (op, a + b) :: post) = refLen (pre ++ (op, a) :: (op, b) :: post) := by
  simp only [refLen, List.map_append, List.map_cons, List.sum_append, List.sum_cons]
  split <;> omega

/-- exchanging `M`, `=` and `X` for each other does not change what a run consumes -/
theorem consumes_match_ops (size : Nat) : consumes 0 size = size ∧ consumes 7 size = size ∧ consumes 8 size = size ∧
    consumes 1 size = 0 ∧ consumes 4 size = 0 ∧ consumes 2 size = size := by
  refine ⟨?_, ?_, ?_, ?_, ?_, ?_⟩ <;> simp [consumes, Const.PARSE_MATCH_OPS]

/-- **depth_total** over any list of reads the depth at `p` is the number of reads whose
alignment spans `p` (loci without multi-substitution sites). -/
theorem depth_total (l : LocusV) (hm : l.multiSites = []) (reads : List ReadV) (p : Int) :
    depthAt (reads.flatMap fun r => (parseRead l r).1) p =
      (reads.filter fun r => decide (r.refStart ≤ p ∧ p < r.refStart + refLen r.cigar)).length := by
  induction reads with
  | nil => simp [depthAt]
  | cons r rs ih =>
    rw [List.flatMap_cons, depthAt_append, ih, depth_one_read l hm r p, List.filter_cons]
    by_cases h : r.refStart ≤ p ∧ p < r.refStart + refLen r.cigar
    · simp [h]; omega
    · simp [h]

/-- **pileup_perm (depth)** the depth does not depend on the order of the reads. -/
theorem depth_perm (l : LocusV) (reads reads' : List ReadV) (h : reads.Perm reads') (p : Int) :
    depthAt (reads.flatMap fun r => (parseRead l r).1) p = depthAt (reads'.flatMap fun r => (parseRead l r).1) p := by
  unfold depthAt
  exact ((h.flatMap_right _).filter _).length_eq

/-- every observation carries the binned mapping quality of its read (CIGAR walk) -/
theorem quality_kept_walkOp (l : LocusV) (r : ReadV) (s : WalkState) (op size : Nat)
    (h : ∀ e ∈ s.evs, e.obs.1 = binQuality r.mq) : ∀ e ∈ (walkOp l r s op size).evs, e.obs.1 = binQuality r.mq := by
  unfold walkOp
  split
  · intro e he
    simp only [List.mem_append, List.mem_map] at he
    rcases he with he | ⟨i, _, rfl⟩
    · exact h e he
    · rfl
  · split
    · intro e he
      simp only [List.mem_append, List.mem_singleton] at he
      rcases he with he | rfl
      · exact h e he
      · rfl
    · split
      · exact h
      · split
        · unfold walkMatch
          simp only
          have key : ∀ (n : Nat) (st0 : WalkState), (∀ e ∈ st0.evs, e.obs.1 = binQuality r.mq) →
              ∀ e ∈ ((List.range n).foldl (fun (st : WalkState) (i : Nat) =>
                let p' : Int := s.start + (i : Int)
                let q := qualAt r (s.sStart + i) st.prevQ
                let b := r.seq.getD (s.sStart + i) 'N'
                let o : Obs := (binQuality r.mq, binQuality q)
                if l.inGene p' && l.base p' != b then
                  let op := strOf [l.base p', '>', b]
                  { st with evs := st.evs ++ [⟨p', op, o⟩], dump := st.dump ++ [(p', op)],
                            phase := if l.phaseable.contains p' then st.phase ++ [(p', op)] else st.phase, prevQ := q }
                else
                  { st with evs := st.evs ++ [⟨p', "_", o⟩],
                            phase := if l.phaseable.contains p' then st.phase ++ [(p', "_")] else st.phase, prevQ := q }) st0).evs,
                e.obs.1 = binQuality r.mq := by
            intro n
            induction n with
            | zero => intro st0 h0; simpa using h0
            | succ k ih =>
              intro st0 h0
              rw [List.range_succ, List.foldl_append, List.foldl_cons, List.foldl_nil]
              simp only
              split
              · intro e he
                simp only [List.mem_append, List.mem_singleton] at he
                rcases he with he | rfl
                · exact ih st0 h0 e he
                · rfl
              · intro e he
                simp only [List.mem_append, List.mem_singleton] at he
                rcases he with he | rfl
                · exact ih st0 h0 e he
                · rfl
          exact key size s h
        · exact h

/-- binning is monotone-table lookup: the generated table is increasing in bound and value -/
theorem bin_table_sorted : (Const.BIN_QUALITY_TABLE.map (·.1)).Pairwise (· < ·) := by
  decide +kernel

/-! ### Non-vacuity -/
section Example
def exLocus : LocusV :=
  { lookupStart := 100, lookupSeq := "ACGTACGTAC".toList.toArray, mapped := [(100, 110)], phaseable := [102],
    multiSites := [], wide := (100, 110) }
def exRead : ReadV := { fragment := "r", refStart := 101, cigar := [(4, 2), (0, 3), (2, 2), (1, 1), (0, 2)],
                        seq := "TTCGAAAC".toList.toArray, mq := 60, qual := none }
example : ((parseRead exLocus exRead).1.map fun e => (e.pos, e.op)) =
    [(101, "_"), (102, "_"), (103, "T>A"), (104, "-"), (105, "-"), (106, "insA"), (106, "G>A"), (107, "T>C")] := by
  decide +kernel
example : refLen exRead.cigar = 7 := by decide
end Example

/-! ### loci with multi-substitution sites: the merge changes nothing elsewhere -/

theorem filter_eraseIdx_of_not {α : Type} (P : α → Bool) (l : List α) (i : Nat) (h : ∀ x, l[i]? = some x → P x = false) :
    (l.eraseIdx i).filter P = l.filter P := by
  induction l generalizing i with
  | nil => simp
  | cons y ys ih =>
    cases i with
    | zero =>
      have : P y = false := h y (by simp)
      simp [List.eraseIdx, this]
    | succ j =>
      simp only [List.eraseIdx_cons_succ, List.filter_cons]
      rw [ih j (fun x hx => h x (by simpa using hx))]

theorem depthAt_reverse (evs : List Ev) (p : Int) : depthAt evs.reverse p = depthAt evs p := by
  simp [depthAt, List.filter_reverse]

theorem eraseFound_depth (rev : List Ev) (pos : Int) (op : String) (q : Int) (hq : q ≠ pos) (i : Nat)
    (hi : rev.findIdx? (fun e => e.pos == pos && e.op == op) = some i) :
    depthAt (rev.eraseIdx i) q = depthAt rev q := by
  unfold depthAt
  rw [filter_eraseIdx_of_not]
  intro x hx
  obtain ⟨hlt, hp, _⟩ := List.findIdx?_eq_some_iff_getElem.mp hi
  have hxe : x = rev[i] := by
    have : rev[i]? = some (rev[i]) := List.getElem?_eq_getElem hlt
    rw [this] at hx
    exact (Option.some.inj hx).symm
  simp only [Bool.and_eq_true, beq_iff_eq] at hp
  have : x.pos ≠ q := by rw [hxe, hp.1]; exact fun h => hq h.symm
  simp [this]

/-- popping an observation of another position does not change the depth here -/
theorem popLast_depth_other (evs : List Ev) (pos : Int) (op : String) (q : Int) (hq : q ≠ pos) :
    depthAt (popLast evs pos op).1 q = depthAt evs q := by
  unfold popLast
  dsimp only
  split
  · rename_i i hi
    rw [depthAt_reverse, eraseFound_depth _ pos op q hq i hi, depthAt_reverse]
  · rfl


/-- does the multi-substitution site concern position `q` (its first position or one of its components)? -/
def siteTouches (site : Int × String) (q : Int) : Bool :=
  q == site.1 || (mnpParts site.2).any fun p => q == site.1 + (p.1 : Int)

theorem depthAt_snoc_other (evs : List Ev) (e : Ev) (q : Int) (h : e.pos ≠ q) : depthAt (evs ++ [e]) q = depthAt evs q := by
  rw [depthAt_append]
  simp [depthAt, h]

/-- **merge_keeps_depth_elsewhere** merging the single-base substitutions of a multi-substitution
changes the observations only at the positions of that site -/
theorem mergeMnp_depth_away (l : LocusV) (evs : List Ev) (dump : List (Int × String)) (q : Int)
    (h : ∀ site ∈ l.multiSites, siteTouches site q = false) :
    depthAt (mergeMnp l evs dump) q = depthAt evs q := by
  unfold mergeMnp
  have key : ∀ (ss : List (Int × String)), (∀ site ∈ ss, siteTouches site q = false) → ∀ evs : List Ev,
      depthAt (ss.foldl (fun evs site =>
        let pos := site.1
        let parts := mnpParts site.2
        if dump.any (fun d => d.1 == pos) && parts.all (fun p => dump.contains (pos + (p.1 : Int), p.2)) then
          let step := parts.foldl (fun (acc : List Ev × List Obs) p =>
            match popLast acc.1 (pos + (p.1 : Int)) p.2 with
            | (evs', some o) =>
              ((if p.1 != 0 then evs' ++ [⟨pos + (p.1 : Int), "_", o⟩] else evs'), acc.2 ++ [o])
            | (evs', none) => (evs', acc.2)) (evs, [])
          step.1 ++ [⟨pos, site.2, (ratMean (step.2.map (·.1)), ratMean (step.2.map (·.2)))⟩]
        else evs) evs) q = depthAt evs q := by
    intro ss
    induction ss with
    | nil => intro _ evs; rfl
    | cons site ss ih =>
      intro hs evs
      simp only [List.foldl_cons]
      rw [ih (fun s hs' => hs s (by simp [hs']))]
      have ht := hs site (by simp)
      simp only [siteTouches, Bool.or_eq_false_iff, beq_eq_false_iff_ne, ne_eq, List.any_eq_false, beq_iff_eq] at ht
      split
      · rw [depthAt_snoc_other _ _ _ (fun hh => ht.1 hh.symm)]
        -- the inner fold over the components
        have inner : ∀ (ps : List (Nat × String)), (∀ p ∈ ps, ¬ q = site.1 + (p.1 : Int)) → ∀ acc : List Ev × List Obs,
            depthAt (ps.foldl (fun (acc : List Ev × List Obs) p =>
              match popLast acc.1 (site.1 + (p.1 : Int)) p.2 with
              | (evs', some o) =>
                ((if p.1 != 0 then evs' ++ [⟨site.1 + (p.1 : Int), "_", o⟩] else evs'), acc.2 ++ [o])
              | (evs', none) => (evs', acc.2)) acc).1 q = depthAt acc.1 q := by
          intro ps
          induction ps with
          | nil => intro _ acc; rfl
          | cons p ps ihp =>
            intro hp acc
            simp only [List.foldl_cons]
            rw [ihp (fun x hx => hp x (by simp [hx]))]
            have hne : q ≠ site.1 + (p.1 : Int) := hp p (by simp)
            have hpop := popLast_depth_other acc.1 (site.1 + (p.1 : Int)) p.2 q hne
            rcases hres : popLast acc.1 (site.1 + (p.1 : Int)) p.2 with ⟨evs', o?⟩
            rw [hres] at hpop
            cases o? with
            | none => simpa using hpop
            | some o =>
              simp only
              split
              · rw [depthAt_snoc_other _ _ _ (fun hh => hne hh.symm)]; exact hpop
              · exact hpop
        exact inner _ (fun p hp => ht.2 p hp) (evs, [])
      · rfl
  exact key l.multiSites h evs


/-- **depth_one_read (any locus)** at every position that is not part of a catalogued
multi-substitution site the statement of `depth_one_read` holds for every locus -/
theorem depth_one_read_general (l : LocusV) (r : ReadV) (p : Int)
    (h : ∀ site ∈ l.multiSites, siteTouches site p = false) :
    depthAt (parseRead l r).1 p = if r.refStart ≤ p ∧ p < r.refStart + refLen r.cigar then 1 else 0 := by
  unfold parseRead
  simp only
  rw [mergeMnp_depth_away l _ _ p h]
  exact depth_walk l r p

/-- **depth_total (any locus)** -/
theorem depth_total_general (l : LocusV) (reads : List ReadV) (p : Int)
    (h : ∀ site ∈ l.multiSites, siteTouches site p = false) :
    depthAt (reads.flatMap fun r => (parseRead l r).1) p =
      (reads.filter fun r => decide (r.refStart ≤ p ∧ p < r.refStart + refLen r.cigar)).length := by
  induction reads with
  | nil => simp [depthAt]
  | cons r rs ih =>
    rw [List.flatMap_cons, depthAt_append, ih, depth_one_read_general l r p h, List.filter_cons]
    by_cases hh : r.refStart ≤ p ∧ p < r.refStart + refLen r.cigar
    · simp [hh]; omega
    · simp [hh]


/-! ### content: what each read shows, and the support of every operation -/

/-- number of observations of operation `o` at `p` -/
def countOp (evs : List Ev) (p : Int) (o : String) : Nat := (evs.filter fun e => e.pos == p && e.op == o).length

theorem countOp_append (a b : List Ev) (p : Int) (o : String) : countOp (a ++ b) p o = countOp a p o + countOp b p o := by
  simp [countOp, List.filter_append]

theorem countOp_single (q : Int) (op : String) (ob : Obs) (p : Int) (o : String) :
    countOp [⟨q, op, ob⟩] p o = if (q == p && op == o) = true then 1 else 0 := by
  simp only [countOp, List.filter_cons, List.filter_nil]
  split <;> simp

/-- what a match run that starts at reference `start` / read offset `sStart` shows at `p` -/
def calledOp (l : LocusV) (r : ReadV) (start : Int) (sStart : Nat) (p : Int) : String :=
  let b := r.seq.getD (sStart + (p - start).toNat) 'N'
  if l.inGene p && l.base p != b then strOf [l.base p, '>', b] else "_"

theorem ind_step3 (start p : Int) (k : Nat) (c : Bool) (c' : Prop) [Decidable c'] (h : start + (k : Int) = p → (c = true ↔ c')) :
    (if start ≤ p ∧ p < start + (k : Int) ∧ c' then (1 : Nat) else 0) + (if (start + (k : Int) == p && c) = true then 1 else 0) =
      (if start ≤ p ∧ p < start + ((k + 1 : Nat) : Int) ∧ c' then 1 else 0) := by
  by_cases hp : start + (k : Int) = p
  · have := h hp
    by_cases hc : c = true
    · have hc' := this.mp hc
      subst hp
      simp [hc, hc']
    · have hc' : ¬ c' := fun x => hc (this.mpr x)
      simp [hc, hc']
  · have hb : (start + (k : Int) == p) = false := by simpa using hp
    simp only [hb, Bool.false_and, Bool.false_eq_true, if_false, Nat.add_zero]
    push_cast
    by_cases h1 : start ≤ p ∧ p < start + (k : Int) ∧ c'
    · have : start ≤ p ∧ p < start + ((k : Int) + 1) ∧ c' := ⟨h1.1, by omega, h1.2.2⟩
      simp [h1, this]
    · have : ¬ (start ≤ p ∧ p < start + ((k : Int) + 1) ∧ c') := by
        intro hh
        apply h1
        refine ⟨hh.1, ?_, hh.2.2⟩
        have := hh.2.1
        omega
      simp [h1, this]

theorem walkMatch_count (l : LocusV) (r : ReadV) (size : Nat) (s : WalkState) (p : Int) (o : String) :
    countOp (walkMatch l r size s).evs p o =
      countOp s.evs p o + (if s.start ≤ p ∧ p < s.start + size ∧ calledOp l r s.start s.sStart p = o then 1 else 0) ∧
    (walkMatch l r size s).sStart = s.sStart + size := by
  unfold walkMatch
  refine ⟨?_, rfl⟩
  simp only
  have key : ∀ (n : Nat) (st0 : WalkState),
      countOp ((List.range n).foldl (fun (st : WalkState) (i : Nat) =>
        let p' : Int := s.start + (i : Int)
        let q := qualAt r (s.sStart + i) st.prevQ
        let b := r.seq.getD (s.sStart + i) 'N'
        let o : Obs := (binQuality r.mq, binQuality q)
        if l.inGene p' && l.base p' != b then
          let op := strOf [l.base p', '>', b]
          { st with evs := st.evs ++ [⟨p', op, o⟩], dump := st.dump ++ [(p', op)],
                    phase := if l.phaseable.contains p' then st.phase ++ [(p', op)] else st.phase, prevQ := q }
        else
          { st with evs := st.evs ++ [⟨p', "_", o⟩],
                    phase := if l.phaseable.contains p' then st.phase ++ [(p', "_")] else st.phase, prevQ := q }) st0).evs p o
      = countOp st0.evs p o + (if s.start ≤ p ∧ p < s.start + n ∧ calledOp l r s.start s.sStart p = o then 1 else 0) := by
    intro n
    induction n with
    | zero =>
      intro st0
      simp only [List.range_zero, List.foldl_nil, Nat.cast_zero, add_zero]
      rw [if_neg (by intro hh; have := hh.2.1; omega)]; rfl
    | succ k ih =>
      intro st0
      rw [List.range_succ, List.foldl_append, List.foldl_cons, List.foldl_nil]
      simp only
      have hk : ∀ (hp : s.start + (k : Int) = p), (s.start + (k : Int) - s.start).toNat = k := by intro _; simp
      split
      · rename_i hc
        simp only [countOp_append, ih]
        rw [Nat.add_assoc]
        congr 1
        rw [countOp_single]
        apply ind_step3
        intro hp
        subst hp
        simp only [calledOp, add_sub_cancel_left, Int.toNat_natCast, hc, if_true, beq_iff_eq]
      · rename_i hc
        simp only [countOp_append, ih]
        rw [Nat.add_assoc]
        congr 1
        rw [countOp_single]
        apply ind_step3
        intro hp
        subst hp
        simp only [calledOp, add_sub_cancel_left, Int.toNat_natCast, hc, Bool.false_eq_true, if_false, beq_iff_eq]
  exact key size s


/-- what the alignment shows at reference position `p` (non-insertion view): the deleted-base
marker inside a deletion, the called base inside a match run, nothing outside the alignment -/
def showsAt (l : LocusV) (r : ReadV) : List (Nat × Nat) → Int → Nat → Int → Option String
  | [], _, _, _ => none
  | (op, size) :: cs, start, sStart, p =>
    if op == 2 then (if start ≤ p ∧ p < start + size then some "-" else showsAt l r cs (start + size) sStart p)
    else if op == 1 then showsAt l r cs start (sStart + size) p
    else if op == 4 then showsAt l r cs start (sStart + size) p
    else if Const.PARSE_MATCH_OPS.contains op then
      (if start ≤ p ∧ p < start + size then some (calledOp l r start sStart p) else showsAt l r cs (start + size) (sStart + size) p)
    else showsAt l r cs start sStart p

theorem walkOp_sStart (l : LocusV) (r : ReadV) (s : WalkState) (op size : Nat) :
    (walkOp l r s op size).sStart =
      if op == 2 then s.sStart else if op == 1 then s.sStart + size else if op == 4 then s.sStart + size
      else if Const.PARSE_MATCH_OPS.contains op then s.sStart + size else s.sStart := by
  unfold walkOp
  by_cases h2 : (op == 2) = true
  · simp [h2]
  · by_cases h1 : (op == 1) = true
    · simp [h2, h1]
    · by_cases h4 : (op == 4) = true
      · simp [h2, h1, h4]
      · by_cases hm : Const.PARSE_MATCH_OPS.contains op = true
        · simp only [h2, h1, h4, hm, Bool.false_eq_true, if_false, if_true]
          exact (walkMatch_count l r size s 0 "").2
        · have hm' : op ∉ Const.PARSE_MATCH_OPS := by simpa using hm
          simp [h2, h1, h4, hm']

theorem count_del_run (start : Int) (size : Nat) (ob : Obs) (p : Int) (o : String) :
    countOp ((List.range size).map fun (i : Nat) => (⟨start + (i : Int), "-", ob⟩ : Ev)) p o =
      if start ≤ p ∧ p < start + size ∧ "-" = o then 1 else 0 := by
  induction size with
  | zero =>
    simp only [List.range_zero, List.map_nil, Nat.cast_zero, add_zero]
    rw [if_neg (by intro hh; have := hh.2.1; omega)]; rfl
  | succ k ih =>
    rw [List.range_succ, List.map_append, countOp_append, ih, List.map_cons, List.map_nil, countOp_single]
    apply ind_step3
    intro _
    simp

/-- one CIGAR operation, content version of `walkOp_depth` (for non-insertion operations `o`) -/
theorem walkOp_count (l : LocusV) (r : ReadV) (s : WalkState) (op size : Nat) (p : Int) (o : String) (ho : opIsIns o = false) :
    countOp (walkOp l r s op size).evs p o =
      countOp s.evs p o +
        (if op == 2 then (if s.start ≤ p ∧ p < s.start + size ∧ "-" = o then 1 else 0)
         else if op == 1 then 0 else if op == 4 then 0
         else if Const.PARSE_MATCH_OPS.contains op then
           (if s.start ≤ p ∧ p < s.start + size ∧ calledOp l r s.start s.sStart p = o then 1 else 0)
         else 0) := by
  unfold walkOp
  by_cases h2 : (op == 2) = true
  · simp only [h2, if_true]
    rw [countOp_append, count_del_run]
  · by_cases h1 : (op == 1) = true
    · simp only [h2, h1, Bool.false_eq_true, if_false, if_true]
      rw [countOp_append, countOp_single]
      have : (("ins" ++ strOf ((List.range size).map fun i => r.seq.getD (s.sStart + i) 'N')) == o) = false := by
        apply beq_false_of_ne
        intro he
        rw [← he, opIsIns_ins] at ho
        cases ho
      rw [this, Bool.and_false]
      simp
    · by_cases h4 : (op == 4) = true
      · simp [h2, h1, h4]
      · by_cases hm : Const.PARSE_MATCH_OPS.contains op = true
        · simp only [h2, h1, h4, hm, Bool.false_eq_true, if_false, if_true]
          exact (walkMatch_count l r size s p o).1
        · have hm' : op ∉ Const.PARSE_MATCH_OPS := by simpa using hm
          simp [h2, h1, h4, hm']

theorem showsAt_before (l : LocusV) (r : ReadV) (cs : List (Nat × Nat)) (st : Int) (ss : Nat) (p : Int) (h : p < st) :
    showsAt l r cs st ss p = none := by
  induction cs generalizing st ss with
  | nil => rfl
  | cons c cs ih =>
    obtain ⟨op, size⟩ := c
    have hn : ¬ (st ≤ p ∧ p < st + (size : Int)) := by intro hh; omega
    by_cases h2 : (op == 2) = true
    · simp only [showsAt, h2, if_true, hn, if_false]; exact ih _ _ (by omega)
    · by_cases h1 : (op == 1) = true
      · simp only [showsAt, h2, h1, Bool.false_eq_true, if_false, if_true]; exact ih _ _ h
      · by_cases h4 : (op == 4) = true
        · simp only [showsAt, h2, h1, h4, Bool.false_eq_true, if_false, if_true]; exact ih _ _ h
        · by_cases hm : Const.PARSE_MATCH_OPS.contains op = true
          · simp only [showsAt, h2, h1, h4, hm, Bool.false_eq_true, if_false, if_true, hn]; exact ih _ _ (by omega)
          · simp only [showsAt, h2, h1, h4, hm, Bool.false_eq_true, if_false]; exact ih _ _ h

/-- **shows_one_read** for every read, locus and position: among the observations the CIGAR walk
produces there is exactly one non-insertion observation at `p` when the alignment spans `p` -
the operation `showsAt` says (deleted-base marker, reference marker or the substitution to the
read's base) - and none otherwise -/
theorem shows_one_read (l : LocusV) (r : ReadV) (p : Int) (o : String) (ho : opIsIns o = false) :
    countOp (walk l r).evs p o = if showsAt l r r.cigar r.refStart 0 p = some o then 1 else 0 := by
  unfold walk
  have key : ∀ (cig : List (Nat × Nat)) (s : WalkState),
      countOp (cig.foldl (fun s c => walkOp l r s c.1 c.2) s).evs p o =
        countOp s.evs p o + (if showsAt l r cig s.start s.sStart p = some o then 1 else 0) := by
    intro cig
    induction cig with
    | nil => intro s; simp [showsAt]
    | cons c cs ih =>
      intro s
      obtain ⟨op, size⟩ := c
      rw [List.foldl_cons, ih, walkOp_count l r s op size p o ho, walkOp_start, walkOp_sStart, Nat.add_assoc]
      congr 1
      by_cases h2 : (op == 2) = true
      · simp only [showsAt, consumes, h2, if_true, Bool.true_or]
        by_cases hin : s.start ≤ p ∧ p < s.start + (size : Int)
        · rw [showsAt_before l r cs _ _ p hin.2]
          by_cases ho' : "-" = o
          · subst ho'; simp [hin]
          · have : ¬ (some "-" = some o) := fun hh => ho' (Option.some.inj hh)
            simp [hin, ho', this]
        · have : ¬ (s.start ≤ p ∧ p < s.start + (size : Int) ∧ "-" = o) := fun hh => hin ⟨hh.1, hh.2.1⟩
          simp [this, hin]
      · have e2 : (op == 2) = false := by simpa using h2
        by_cases h1 : (op == 1) = true
        · have : op = 1 := by simpa using h1
          subst this
          simp [showsAt, consumes, not_mem_match_1]
        · have e1 : (op == 1) = false := by simpa using h1
          by_cases h4 : (op == 4) = true
          · have : op = 4 := by simpa using h4
            subst this
            simp [showsAt, consumes, not_mem_match_4]
          · have e4 : (op == 4) = false := by simpa using h4
            by_cases hm : Const.PARSE_MATCH_OPS.contains op = true
            · simp only [showsAt, consumes, e2, e1, e4, hm, Bool.false_eq_true, if_false, if_true, Bool.false_or]
              by_cases hin : s.start ≤ p ∧ p < s.start + (size : Int)
              · rw [showsAt_before l r cs _ _ p hin.2]
                by_cases ho' : calledOp l r s.start s.sStart p = o
                · simp [hin, ho']
                · have : ¬ (some (calledOp l r s.start s.sStart p) = some o) := fun hh => ho' (Option.some.inj hh)
                  simp [hin, ho', this]
              · have : ¬ (s.start ≤ p ∧ p < s.start + (size : Int) ∧ calledOp l r s.start s.sStart p = o) := fun hh => hin ⟨hh.1, hh.2.1⟩
                simp [this, hin]
            · have hm' : op ∉ Const.PARSE_MATCH_OPS := by simpa using hm
              simp [showsAt, consumes, e2, e1, e4, hm']
  have := key r.cigar { start := r.refStart, sStart := 0, prevQ := Const.PARSE_PREV_Q, evs := [], dump := [], phase := [] }
  simpa [countOp] using this


/-- observations at `p` whose operation satisfies `Q` (depth: `Q = not insertion`; support of `o`: `Q = (· == o)`) -/
def countP (Q : String → Bool) (evs : List Ev) (p : Int) : Nat := (evs.filter fun e => e.pos == p && Q e.op).length

theorem countP_append (Q : String → Bool) (a b : List Ev) (p : Int) : countP Q (a ++ b) p = countP Q a p + countP Q b p := by
  simp [countP, List.filter_append]

theorem countP_reverse (Q : String → Bool) (evs : List Ev) (p : Int) : countP Q evs.reverse p = countP Q evs p := by
  simp [countP, List.filter_reverse]

theorem countOp_eq_countP (evs : List Ev) (p : Int) (o : String) : countOp evs p o = countP (· == o) evs p := rfl

theorem eraseFound_countP (Q : String → Bool) (rev : List Ev) (pos : Int) (op : String) (q : Int) (hq : q ≠ pos) (i : Nat)
    (hi : rev.findIdx? (fun e => e.pos == pos && e.op == op) = some i) :
    countP Q (rev.eraseIdx i) q = countP Q rev q := by
  unfold countP
  rw [filter_eraseIdx_of_not]
  intro x hx
  obtain ⟨hlt, hp, _⟩ := List.findIdx?_eq_some_iff_getElem.mp hi
  have hxe : x = rev[i] := by
    have : rev[i]? = some (rev[i]) := List.getElem?_eq_getElem hlt
    rw [this] at hx
    exact (Option.some.inj hx).symm
  simp only [Bool.and_eq_true, beq_iff_eq] at hp
  have : x.pos ≠ q := by rw [hxe, hp.1]; exact fun h => hq h.symm
  simp [this]

theorem popLast_countP_other (Q : String → Bool) (evs : List Ev) (pos : Int) (op : String) (q : Int) (hq : q ≠ pos) :
    countP Q (popLast evs pos op).1 q = countP Q evs q := by
  unfold popLast
  dsimp only
  split
  · rename_i i hi
    rw [countP_reverse, eraseFound_countP Q _ pos op q hq i hi, countP_reverse]
  · rfl

theorem countP_snoc_other (Q : String → Bool) (evs : List Ev) (e : Ev) (q : Int) (h : e.pos ≠ q) :
    countP Q (evs ++ [e]) q = countP Q evs q := by
  rw [countP_append]
  simp [countP, h]

/-- the merge of multi-substitutions changes observations only at the positions of its sites (any counting predicate) -/
theorem mergeMnp_countP_away (Q : String → Bool) (l : LocusV) (evs : List Ev) (dump : List (Int × String)) (q : Int)
    (h : ∀ site ∈ l.multiSites, siteTouches site q = false) :
    countP Q (mergeMnp l evs dump) q = countP Q evs q := by
  unfold mergeMnp
  have key : ∀ (ss : List (Int × String)), (∀ site ∈ ss, siteTouches site q = false) → ∀ evs : List Ev,
      countP Q (ss.foldl (fun evs site =>
        let pos := site.1
        let parts := mnpParts site.2
        if dump.any (fun d => d.1 == pos) && parts.all (fun p => dump.contains (pos + (p.1 : Int), p.2)) then
          let step := parts.foldl (fun (acc : List Ev × List Obs) p =>
            match popLast acc.1 (pos + (p.1 : Int)) p.2 with
            | (evs', some o) =>
              ((if p.1 != 0 then evs' ++ [⟨pos + (p.1 : Int), "_", o⟩] else evs'), acc.2 ++ [o])
            | (evs', none) => (evs', acc.2)) (evs, [])
          step.1 ++ [⟨pos, site.2, (ratMean (step.2.map (·.1)), ratMean (step.2.map (·.2)))⟩]
        else evs) evs) q = countP Q evs q := by
    intro ss
    induction ss with
    | nil => intro _ evs; rfl
    | cons site ss ih =>
      intro hs evs
      simp only [List.foldl_cons]
      rw [ih (fun s hs' => hs s (by simp [hs']))]
      have ht := hs site (by simp)
      simp only [siteTouches, Bool.or_eq_false_iff, beq_eq_false_iff_ne, ne_eq, List.any_eq_false, beq_iff_eq] at ht
      split
      · rw [countP_snoc_other _ _ _ _ (fun hh => ht.1 hh.symm)]
        have inner : ∀ (ps : List (Nat × String)), (∀ p ∈ ps, ¬ q = site.1 + (p.1 : Int)) → ∀ acc : List Ev × List Obs,
            countP Q (ps.foldl (fun (acc : List Ev × List Obs) p =>
              match popLast acc.1 (site.1 + (p.1 : Int)) p.2 with
              | (evs', some o) =>
                ((if p.1 != 0 then evs' ++ [⟨site.1 + (p.1 : Int), "_", o⟩] else evs'), acc.2 ++ [o])
              | (evs', none) => (evs', acc.2)) acc).1 q = countP Q acc.1 q := by
          intro ps
          induction ps with
          | nil => intro _ acc; rfl
          | cons p ps ihp =>
            intro hp acc
            simp only [List.foldl_cons]
            rw [ihp (fun x hx => hp x (by simp [hx]))]
            have hne : q ≠ site.1 + (p.1 : Int) := hp p (by simp)
            have hpop := popLast_countP_other Q acc.1 (site.1 + (p.1 : Int)) p.2 q hne
            rcases hres : popLast acc.1 (site.1 + (p.1 : Int)) p.2 with ⟨evs', o?⟩
            rw [hres] at hpop
            cases o? with
            | none => simpa using hpop
            | some o =>
              simp only
              split
              · rw [countP_snoc_other _ _ _ _ (fun hh => hne hh.symm)]; exact hpop
              · exact hpop
        exact inner _ (fun p hp => ht.2 p hp) (evs, [])
      · rfl
  exact key l.multiSites h evs

/-- **support_total (any locus)** over any list of reads, the number of observations of a
non-insertion operation `o` at a position `p` outside multi-substitution sites is the number of
reads whose alignment shows `o` at `p`: reference marker and substitutions are counted once per
read that shows them, deleted bases once per read that deletes them - nothing else is counted -/
theorem support_total_general (l : LocusV) (reads : List ReadV) (p : Int) (o : String) (ho : opIsIns o = false)
    (h : ∀ site ∈ l.multiSites, siteTouches site p = false) :
    countOp (reads.flatMap fun r => (parseRead l r).1) p o =
      (reads.filter fun r => decide (showsAt l r r.cigar r.refStart 0 p = some o)).length := by
  induction reads with
  | nil => simp [countOp]
  | cons r rs ih =>
    rw [List.flatMap_cons, countOp_append, ih, List.filter_cons]
    have h1 : countOp (parseRead l r).1 p o = if showsAt l r r.cigar r.refStart 0 p = some o then 1 else 0 := by
      unfold parseRead
      simp only
      rw [countOp_eq_countP, mergeMnp_countP_away _ l _ _ p h, ← countOp_eq_countP]
      exact shows_one_read l r p o ho
    rw [h1]
    by_cases hh : showsAt l r r.cigar r.refStart 0 p = some o
    · simp [hh]; omega
    · simp [hh]


end Aldy
