import Aldy.Model.Pileup
import Aldy.Props.C11
import Mathlib.Tactic.Linarith

/-!
# C06 — alignment evidence is a faithful pileup of the eligible reads

Theorems about `walk` / `parseRead` / `makeTable` (model of `_parse_read`, `_make_coverage`).
-/

namespace Aldy

/-- number of non-insertion observations at `p` -/
def depthAt (evs : List Ev) (p : Int) : Nat := (evs.filter fun e => e.pos == p && !opIsIns e.op).length

theorem depthAt_append (a b : List Ev) (p : Int) : depthAt (a ++ b) p = depthAt a p + depthAt b p := by
  simp [depthAt, List.filter_append]

theorem depthAt_nil (p : Int) : depthAt [] p = 0 := rfl

theorem opIsIns_sub (a b : Char) : opIsIns (strOf [a, '>', b]) = false := by
  simp [opIsIns, strOf, String.toList_ofList]

theorem opIsIns_ref : opIsIns "_" = false := by decide
theorem opIsIns_del : opIsIns "-" = false := by decide

theorem ind_step (start p : Int) (n : Nat) :
    (if start ≤ p ∧ p < start + (n : Int) then 1 else 0) + (if start + (n : Int) = p then 1 else 0) =
      (if start ≤ p ∧ p < start + ((n + 1 : Nat) : Int) then (1 : Nat) else 0) := by
  push_cast
  split_ifs <;> omega

theorem ind_concat (s p : Int) (a b : Nat) :
    (if s ≤ p ∧ p < s + (a : Int) then 1 else 0) + (if s + (a : Int) ≤ p ∧ p < s + (a : Int) + (b : Int) then 1 else 0) =
      (if s ≤ p ∧ p < s + ((a + b : Nat) : Int) then (1 : Nat) else 0) := by
  push_cast
  split_ifs <;> omega

theorem depthAt_single (q : Int) (op : String) (o : Obs) (p : Int) (h : opIsIns op = false) :
    depthAt [⟨q, op, o⟩] p = if q = p then 1 else 0 := by
  simp only [depthAt, List.filter_cons, List.filter_nil, h, Bool.not_false, Bool.and_true, beq_iff_eq]
  split <;> simp

/-- events of one deleted run: one per base -/
theorem depth_del_run (start : Int) (size : Nat) (o : Obs) (p : Int) :
    depthAt ((List.range size).map (fun (i : Nat) => (⟨start + (i : Int), "-", o⟩ : Ev))) p =
      if start ≤ p ∧ p < start + size then 1 else 0 := by
  induction size with
  | zero => simp [depthAt]
  | succ n ih =>
    rw [List.range_succ, List.map_append, depthAt_append, ih]
    simp only [List.map_cons, List.map_nil]
    rw [depthAt_single _ _ _ _ opIsIns_del]
    exact ind_step start p n

/-- the match loop adds exactly one non-insertion observation per position of the run -/
theorem walkMatch_depth (l : LocusV) (r : ReadV) (size : Nat) (s : WalkState) (p : Int) :
    depthAt (walkMatch l r size s).evs p = depthAt s.evs p + (if s.start ≤ p ∧ p < s.start + size then 1 else 0) ∧
    (walkMatch l r size s).start = s.start + size := by
  unfold walkMatch
  refine ⟨?_, rfl⟩
  simp only
  -- generalise the fold over `List.range size`
  have key : ∀ (n : Nat) (st0 : WalkState),
      depthAt ((List.range n).foldl (fun (st : WalkState) (i : Nat) =>
        let p' : Int := s.start + (i : Int)
        let q := qualAt r (s.sStart + i) st.prevQ
        let b := r.seq.getD (s.sStart + i) 'N'
        let o : Obs := (binQuality r.mq, binQuality q)
        if l.inGene p' && l.base p' != b then
          let op := strOf [l.base p', '>', b]
          { st with evs := st.evs ++ [⟨p', op, o⟩], dump := st.dump ++ [(p', op)],
                    phase := if l.phaseable.contains p' then st.phase ++ [(p', op)] else st.phase, prevQ := q }
        else
          { st with evs := st.evs ++ [⟨p', "_", o⟩],
                    phase := if l.phaseable.contains p' then st.phase ++ [(p', "_")] else st.phase, prevQ := q }) st0).evs p
      = depthAt st0.evs p + (if s.start ≤ p ∧ p < s.start + n then 1 else 0) := by
    intro n
    induction n with
    | zero => intro st0; simp
    | succ k ih =>
      intro st0
      rw [List.range_succ, List.foldl_append, List.foldl_cons, List.foldl_nil]
      simp only
      split
      · simp only [depthAt_append, ih]
        rw [depthAt_single _ _ _ _ (opIsIns_sub _ _), Nat.add_assoc]
        congr 1
        exact ind_step s.start p k
      · simp only [depthAt_append, ih]
        rw [depthAt_single _ _ _ _ opIsIns_ref, Nat.add_assoc]
        congr 1
        exact ind_step s.start p k
  exact key size s

theorem opIsIns_ins (cs : List Char) : opIsIns ("ins" ++ strOf cs) = true := by
  simp [opIsIns, strOf, String.toList_append, String.toList_ofList]

theorem ind_zero (s p : Int) : (if s ≤ p ∧ p < s + ((0 : Nat) : Int) then (1 : Nat) else 0) = 0 := by
  push_cast
  split_ifs <;> omega

theorem depthAt_ins (q : Int) (cs : List Char) (o : Obs) (p : Int) : depthAt [⟨q, "ins" ++ strOf cs, o⟩] p = 0 := by
  simp [depthAt, opIsIns_ins]

theorem not_match_1 : Const.PARSE_MATCH_OPS.contains 1 = false := by decide
theorem not_match_4 : Const.PARSE_MATCH_OPS.contains 4 = false := by decide

theorem not_mem_match_1 : 1 ∉ Const.PARSE_MATCH_OPS := by decide
theorem not_mem_match_4 : 4 ∉ Const.PARSE_MATCH_OPS := by decide

theorem walkOp_start (l : LocusV) (r : ReadV) (s : WalkState) (op size : Nat) :
    (walkOp l r s op size).start = s.start + consumes op size := by
  unfold walkOp consumes
  by_cases h2 : op = 2
  · subst h2; simp
  · by_cases h1 : op = 1
    · subst h1; simp [not_mem_match_1]
    · by_cases h4 : op = 4
      · subst h4; simp [not_mem_match_4]
      · by_cases hm : op ∈ Const.PARSE_MATCH_OPS
        · simp [h2, h1, h4, hm, (walkMatch_depth l r size s 0).2]
        · simp [h2, h1, h4, hm]

/-- one CIGAR operation: depth grows by the indicator of the reference run it consumes;
insertions and soft clips consume nothing -/
theorem walkOp_depth (l : LocusV) (r : ReadV) (s : WalkState) (op size : Nat) (p : Int) :
    depthAt (walkOp l r s op size).evs p =
      depthAt s.evs p + (if s.start ≤ p ∧ p < s.start + consumes op size then 1 else 0) := by
  unfold walkOp consumes
  by_cases h2 : op = 2
  · subst h2
    simp only [beq_self_eq_true, if_true, Bool.true_or]
    rw [depthAt_append, depth_del_run]
  · by_cases h1 : op = 1
    · subst h1
      simp only [show ((1 : Nat) == 2) = false by decide, Bool.false_eq_true, if_false, beq_self_eq_true, if_true,
        not_match_1, Bool.false_or]
      rw [depthAt_append, depthAt_ins, ind_zero]
    · by_cases h4 : op = 4
      · subst h4
        simp only [show ((4 : Nat) == 2) = false by decide, show ((4 : Nat) == 1) = false by decide, Bool.false_eq_true,
          if_false, beq_self_eq_true, if_true, not_match_4, Bool.false_or]
        rw [ind_zero]; rfl
      · have e2 : (op == 2) = false := by simpa using h2
        have e1 : (op == 1) = false := by simpa using h1
        have e4 : (op == 4) = false := by simpa using h4
        by_cases hm : Const.PARSE_MATCH_OPS.contains op = true
        · simp only [e2, e1, e4, Bool.false_eq_true, if_false, hm, if_true, Bool.false_or]
          exact (walkMatch_depth l r size s p).1
        · have hm' : Const.PARSE_MATCH_OPS.contains op = false := by simpa using hm
          simp only [e2, e1, e4, Bool.false_eq_true, if_false, hm', Bool.false_or]
          rw [ind_zero]; rfl

theorem refLen_cons (c : Nat × Nat) (cs : List (Nat × Nat)) : refLen (c :: cs) = consumes c.1 c.2 + refLen cs := by
  simp [refLen, consumes]

/-- **depth_one_read (walk)** for every read and position `p`: the CIGAR walk adds exactly one
non-insertion observation at `p` if `ref_start ≤ p < ref_start + reference length`, none otherwise
(matches, mismatches and deleted bases count once; insertions and soft clips consume no reference). -/
theorem depth_walk (l : LocusV) (r : ReadV) (p : Int) :
    depthAt (walk l r).evs p = if r.refStart ≤ p ∧ p < r.refStart + refLen r.cigar then 1 else 0 := by
  unfold walk
  have key : ∀ (cig : List (Nat × Nat)) (s : WalkState),
      depthAt (cig.foldl (fun s c => walkOp l r s c.1 c.2) s).evs p =
        depthAt s.evs p + (if s.start ≤ p ∧ p < s.start + refLen cig then 1 else 0) := by
    intro cig
    induction cig with
    | nil => intro s; simp [refLen]
    | cons c cs ih =>
      intro s
      rw [List.foldl_cons, ih, walkOp_depth l r s c.1 c.2 p, walkOp_start l r s c.1 c.2, refLen_cons]
      rw [Nat.add_assoc]
      congr 1
      exact ind_concat s.start p (consumes c.1 c.2) (refLen cs)
  have := key r.cigar { start := r.refStart, sStart := 0, prevQ := Const.PARSE_PREV_Q, evs := [], dump := [], phase := [] }
  simpa [depthAt_nil] using this

/-- **depth_one_read** the same for `parseRead` on a locus without multi-substitution sites. -/
theorem depth_one_read (l : LocusV) (hm : l.multiSites = []) (r : ReadV) (p : Int) :
    depthAt (parseRead l r).1 p = if r.refStart ≤ p ∧ p < r.refStart + refLen r.cigar then 1 else 0 := by
  unfold parseRead mergeMnp
  simp only [hm, List.foldl_nil]
  exact depth_walk l r p

/-- **cigar_split_invariant (depth)** splitting a run `(op, a + b)` into `(op, a), (op, b)`
leaves the reference length - hence every depth - unchanged. -/
theorem refLen_split (pre post : List (Nat × Nat)) (op a b : Nat) :
    refLen (pre ++ (op, a + b) :: post) = refLen (pre ++ (op, a) :: (op, b) :: post) := by
  simp only [refLen, List.map_append, List.map_cons, List.sum_append, List.sum_cons]
  split <;> omega

/-- exchanging `M`, `=` and `X` for each other does not change what a run consumes -/
theorem consumes_match_ops (size : Nat) : consumes 0 size = size ∧ consumes 7 size = size ∧ consumes 8 size = size ∧
    consumes 1 size = 0 ∧ consumes 4 size = 0 ∧ consumes 2 size = size := by
  refine ⟨?_, ?_, ?_, ?_, ?_, ?_⟩ <;> simp [consumes, Const.PARSE_MATCH_OPS]

/-- **depth_total** over any list of reads the depth at `p` is the number of reads whose
alignment spans `p` (loci without multi-substitution sites). -/
theorem depth_total (l : LocusV) (hm : l.multiSites = []) (reads : List ReadV) (p : Int) :
    depthAt (reads.flatMap fun r => (parseRead l r).1) p =
      (reads.filter fun r => decide (r.refStart ≤ p ∧ p < r.refStart + refLen r.cigar)).length := by
  induction reads with
  | nil => simp [depthAt]
  | cons r rs ih =>
    rw [List.flatMap_cons, depthAt_append, ih, depth_one_read l hm r p, List.filter_cons]
    by_cases h : r.refStart ≤ p ∧ p < r.refStart + refLen r.cigar
    · simp [h]; omega
    · simp [h]

/-- **pileup_perm (depth)** the depth does not depend on the order of the reads. -/
theorem depth_perm (l : LocusV) (reads reads' : List ReadV) (h : reads.Perm reads') (p : Int) :
    depthAt (reads.flatMap fun r => (parseRead l r).1) p = depthAt (reads'.flatMap fun r => (parseRead l r).1) p := by
  unfold depthAt
  exact ((h.flatMap_right _).filter _).length_eq

/-- every observation carries the binned mapping quality of its read (CIGAR walk) -/
theorem quality_kept_walkOp (l : LocusV) (r : ReadV) (s : WalkState) (op size : Nat)
    (h : ∀ e ∈ s.evs, e.obs.1 = binQuality r.mq) : ∀ e ∈ (walkOp l r s op size).evs, e.obs.1 = binQuality r.mq := by
  unfold walkOp
  split
  · intro e he
    simp only [List.mem_append, List.mem_map] at he
    rcases he with he | ⟨i, _, rfl⟩
    · exact h e he
    · rfl
  · split
    · intro e he
      simp only [List.mem_append, List.mem_singleton] at he
      rcases he with he | rfl
      · exact h e he
      · rfl
    · split
      · exact h
      · split
        · unfold walkMatch
          simp only
          have key : ∀ (n : Nat) (st0 : WalkState), (∀ e ∈ st0.evs, e.obs.1 = binQuality r.mq) →
              ∀ e ∈ ((List.range n).foldl (fun (st : WalkState) (i : Nat) =>
                let p' : Int := s.start + (i : Int)
                let q := qualAt r (s.sStart + i) st.prevQ
                let b := r.seq.getD (s.sStart + i) 'N'
                let o : Obs := (binQuality r.mq, binQuality q)
                if l.inGene p' && l.base p' != b then
                  let op := strOf [l.base p', '>', b]
                  { st with evs := st.evs ++ [⟨p', op, o⟩], dump := st.dump ++ [(p', op)],
                            phase := if l.phaseable.contains p' then st.phase ++ [(p', op)] else st.phase, prevQ := q }
                else
                  { st with evs := st.evs ++ [⟨p', "_", o⟩],
                            phase := if l.phaseable.contains p' then st.phase ++ [(p', "_")] else st.phase, prevQ := q }) st0).evs,
                e.obs.1 = binQuality r.mq := by
            intro n
            induction n with
            | zero => intro st0 h0; simpa using h0
            | succ k ih =>
              intro st0 h0
              rw [List.range_succ, List.foldl_append, List.foldl_cons, List.foldl_nil]
              simp only
              split
              · intro e he
                simp only [List.mem_append, List.mem_singleton] at he
                rcases he with he | rfl
                · exact ih st0 h0 e he
                · rfl
              · intro e he
                simp only [List.mem_append, List.mem_singleton] at he
                rcases he with he | rfl
                · exact ih st0 h0 e he
                · rfl
          exact key size s h
        · exact h

/-- binning is monotone-table lookup: the generated table is increasing in bound and value -/
theorem bin_table_sorted : (Const.BIN_QUALITY_TABLE.map (·.1)).Pairwise (· < ·) := by
  decide +kernel

/-! ### Non-vacuity -/
section Example
def exLocus : LocusV :=
  { lookupStart := 100, lookupSeq := "ACGTACGTAC".toList.toArray, mapped := [(100, 110)], phaseable := [102],
    multiSites := [], wide := (100, 110) }
def exRead : ReadV := { fragment := "r", refStart := 101, cigar := [(4, 2), (0, 3), (2, 2), (1, 1), (0, 2)],
                        seq := "TTCGAAAC".toList.toArray, mq := 60, qual := none }
example : ((parseRead exLocus exRead).1.map fun e => (e.pos, e.op)) =
    [(101, "_"), (102, "_"), (103, "T>A"), (104, "-"), (105, "-"), (106, "insA"), (106, "G>A"), (107, "T>C")] := by
  decide +kernel
example : refLen exRead.cigar = 7 := by decide
end Example

end Aldy
