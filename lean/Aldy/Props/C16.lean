import Aldy.Model.VcfIn
import Mathlib.Tactic.NormNum

/-!
# C16 — VCF genotypes are turned into matching evidence

Theorems about `getMut` / `vcfRecordStep` / `loadVcf` (model of `_load_vcf`).
-/

namespace Aldy

/-- two alternate copies use up exactly the reference pseudo-reads of a site (regenerated constants) -/
theorem vcf_pseudo_read_numbers : Const.VCF_REF_READS = 2 * Const.VCF_ALT_READS := by decide

/-- alleles of a record shape that cannot be expressed are skipped, not stored (regenerated
from the skip test of `_load_vcf`) -/
theorem vcf_ignored_shapes_do_not_fail : Const.VCF_SKIPS_NONE = true := by decide

/-- **vcf_absent_is_homref** without records every position of the locus carries the full
reference support and no variant support. -/
theorem vcf_absent_is_homref (l : LocusV) :
    (loadVcf l []).muts = [] ∧ ∀ e ∈ (loadVcf l []).norm, e.2 = Const.VCF_REF_READS := by
  constructor
  · rfl
  · intro e he
    simp only [loadVcf, List.foldl_nil, List.mem_map] at he
    obtain ⟨i, _, rfl⟩ := he
    rfl

/-- **vcf_nondiploid_ignored** a record whose genotype does not have exactly two called alleles
(missing, haploid, polyploid) changes nothing. -/
theorem vcf_nondiploid_ignored (l : LocusV) (s : VcfState) (r : VcfRecord)
    (h : (r.gt.filterMap id).length ≠ 2) : vcfRecordStep l s r = s := by
  unfold vcfRecordStep
  have : ((r.gt.filterMap id).length != 2) = true := by simpa using h
  simp [this]

/-- **vcf_homref_record** a record called 0/0 whose REF matches the reference changes nothing
(loci without multi-substitution sites). -/
theorem vcf_homref_record (l : LocusV) (hm : l.multiSites = []) (s : VcfState) (r : VcfRecord)
    (hgt : r.gt = [some 0, some 0]) (href : ¬ (r.ref.length == 1 && r.ref.head? != some (l.base r.pos0)) = true) :
    vcfRecordStep l s r = s := by
  unfold vcfRecordStep
  simp only [hgt, List.filterMap_cons, id, List.filterMap_nil, List.length_cons, List.length_nil]
  by_cases hN : l.base r.pos0 == 'N'
  · simp [hN]
  · simp only [hN, Bool.or_false, bne_self_eq_false, Bool.false_eq_true, if_false, href, hm, List.foldl_nil,
      List.foldl_cons, List.getElem?_cons_zero]
    simp

/-- **vcf_conversion** what a record allele becomes: a single-base change is a substitution
spelled against the *reference* base (or the reference marker when it equals it); a pure
deletion / insertion is anchored after the common prefix. -/
theorem vcf_snp_conversion (l : LocusV) (pos : Int) (r a : Char) (h : a ≠ l.base pos) (hra : r ≠ a) :
    getMut l pos [r] [a] = (pos, some (strOf [l.base pos, '>', a])) := by
  have hc : commonPrefix [r] [a] = 0 := by simp [commonPrefix, hra]
  simp [getMut, hc, h]

theorem vcf_same_as_reference (l : LocusV) (pos : Int) (r : Char) (hr : r ≠ l.base pos) :
    getMut l pos [r] [l.base pos] = (pos, some "_") := by
  have hc : commonPrefix [r] [l.base pos] = 0 := by simp [commonPrefix, hr]
  simp [getMut, hc]

theorem vcf_deletion_conversion (l : LocusV) (pos : Int) (a : Char) (d : List Char) (hd : d ≠ []) :
    getMut l pos (a :: d) [a] = (pos + 1, some ("del" ++ strOf (l.slice (pos + 1) d.length))) := by
  have hc : commonPrefix (a :: d) [a] = 1 := by
    cases d with
    | nil => exact absurd rfl hd
    | cons x xs => simp [commonPrefix]
  cases d with
  | nil => exact absurd rfl hd
  | cons x xs => simp [getMut, hc]

theorem vcf_insertion_conversion (l : LocusV) (pos : Int) (a : Char) (x : List Char) (hx : x ≠ []) :
    getMut l pos [a] (a :: x) = (pos + 1, some ("ins" ++ strOf x)) := by
  have hc : commonPrefix [a] (a :: x) = 1 := by
    cases x with
    | nil => exact absurd rfl hx
    | cons y ys => simp [commonPrefix]
  cases x with
  | nil => exact absurd rfl hx
  | cons y ys => simp [getMut, hc]

/-- a same-length multi-base pair is an ignored shape -/
theorem vcf_mnp_record_ignored (l : LocusV) (pos : Int) (a b c d : Char) (h1 : a ≠ c) :
    (getMut l pos [a, b] [c, d]).2 = none := by
  have hc : commonPrefix [a, b] [c, d] = 0 := by simp [commonPrefix, h1]
  simp [getMut, hc]

/-! ### Non-vacuity / concrete behaviour -/
section Example
def exVLocus : LocusV :=
  { lookupStart := 100, lookupSeq := "ACGTACGTAC".toList.toArray, mapped := [(100, 110)], phaseable := [],
    multiSites := [], wide := (100, 110) }
example : (loadVcf exVLocus [⟨102, ['G'], [['T']], [some 0, some 1]⟩]).muts = [(⟨102, "G>T"⟩, 10)] := by decide +kernel
example : (loadVcf exVLocus [⟨102, ['G'], [['T']], [some 1, some 1]⟩]).muts = [(⟨102, "G>T"⟩, 20)] := by decide +kernel
example : ((loadVcf exVLocus [⟨102, ['G'], [['T']], [some 1, some 1]⟩]).norm.lookup 102) = some 0 := by decide +kernel
example : (loadVcf exVLocus [⟨102, ['G', 'T'], [['G']], [some 0, some 1]⟩]).muts = [(⟨103, "delT"⟩, 10)] := by decide +kernel
end Example

end Aldy
