import Aldy.Props.C01
import Mathlib.Data.List.Nodup

/-!
# C01, refinement stage — the planted point of the minor model is feasible with objective 0

`Props/C01.lean` shows that *if* some feasible point of `MinorInst.build` scores 0 then every
optimum carries every considered variant on exactly the observed number of copies
(`minor_optima_exact`).  This file supplies the premise for **every** instance: under the clauses
`PlantedMinor` (the evidence is the zero-error evidence of `copies`: the planted candidates fill
the major solution, every variant / reference row is observed on exactly the planted carriers,
every read-phase pattern is the pattern of a planted copy) the closed-form point
`MinorInst.zeroσ` satisfies all fourteen constraint families of the model
`solve_minor_model` builds, and its objective is 0 (`planted_minor_feasible`).  The clauses are
decidable (`plantedMinorB_iff`); the driver evaluates them on the real inputs of
`solve_minor_model` for every simulated sample.
-/

namespace Aldy
open MinorInst

/-! ### sums over lists -/

theorem evalTerms_flatMap_sum {V α : Type} (σ : V → Rat) (l : List α) (f : α → List (Rat × V)) :
    evalTerms σ (l.flatMap f) = (l.map fun x => evalTerms σ (f x)).sum := by
  induction l with
  | nil => simp
  | cons x xs ih => rw [List.flatMap_cons, evalTerms_append, ih]; simp

theorem evalTerms_map_sum {V α : Type} (σ : V → Rat) (l : List α) (f : α → Rat × V) :
    evalTerms σ (l.map f) = (l.map fun x => (f x).1 * σ (f x).2).sum := by
  induction l with
  | nil => simp
  | cons x xs ih => simp [ih]

theorem evalTerms_filterMap_sum {V α : Type} (σ : V → Rat) (l : List α) (f : α → Option (Rat × V)) :
    evalTerms σ (l.filterMap f) = (l.map fun x => (f x).elim 0 fun t => t.1 * σ t.2).sum := by
  induction l with
  | nil => simp
  | cons x xs ih =>
    rw [List.filterMap_cons]
    cases h : f x with
    | none => simp [h, ih]
    | some t => simp [h, ih]

theorem evalTerms_filter_map_sum {V α : Type} (σ : V → Rat) (l : List α) (p : α → Bool) (f : α → Rat × V) :
    evalTerms σ ((l.filter p).map f) = (l.map fun x => if p x then (f x).1 * σ (f x).2 else 0).sum := by
  induction l with
  | nil => simp
  | cons x xs ih =>
    rw [List.filter_cons]
    by_cases h : p x <;> simp [h, ih]

theorem sum_map_congr {α : Type} (l : List α) (f g : α → Rat) (h : ∀ x ∈ l, f x = g x) :
    (l.map f).sum = (l.map g).sum := by
  rw [List.map_congr_left h]

theorem sum_map_zero {α : Type} (l : List α) (f : α → Rat) (h : ∀ x ∈ l, f x = 0) : (l.map f).sum = 0 := by
  induction l with
  | nil => simp
  | cons x xs ih =>
    have h1 := h x (by simp)
    have h2 := ih (fun y hy => h y (by simp [hy]))
    simp [h1, h2]

theorem evalTerms_zero_of {V : Type} (σ : V → Rat) (ts : List (Rat × V)) (h : ∀ t ∈ ts, σ t.2 = 0) :
    evalTerms σ ts = 0 := by
  induction ts with
  | nil => simp
  | cons t ts ih =>
    have h1 := h t (by simp)
    have h2 := ih (fun y hy => h y (by simp [hy]))
    simp [h1, h2]

theorem sum_add_sum {α : Type} (l : List α) (f g : α → Rat) :
    (l.map f).sum + (l.map g).sum = (l.map fun x => f x + g x).sum := by
  induction l with
  | nil => simp
  | cons x xs ih => simp only [List.map_cons, List.sum_cons, ← ih]; ring

theorem indicator_sum_nodup {α : Type} [DecidableEq α] (l : List α) (a : α) (hnd : l.Nodup) (ha : a ∈ l) :
    (l.map fun x => if x = a then (1 : Rat) else 0).sum = 1 := by
  induction l with
  | nil => cases ha
  | cons x xs ih =>
    rw [List.nodup_cons] at hnd
    simp only [List.map_cons, List.sum_cons]
    by_cases hx : x = a
    · subst hx
      have : (xs.map fun y => if y = x then (1 : Rat) else 0).sum = 0 := by
        apply sum_map_zero
        intro y hy
        have : y ≠ x := fun e => hnd.1 (e ▸ hy)
        simp [this]
      simp [this]
    · have ha' : a ∈ xs := by
        rcases List.mem_cons.mp ha with e | e
        · exact absurd e.symm hx
        · exact e
      simp [hx, ih hnd.2 ha']

/-! ### the planted selectors summed over the slots -/

/-- one candidate: copy 0 plus the extra copies `1 .. n-1` -/
theorem cand_sum (k n : Nat) (F : Rat) (hk : k ≤ n) :
    (if 0 < k then F else 0) + (((List.range n).filter (· ≥ 1)).map fun i => if i < k then F else 0).sum =
      (k : Rat) * F := by
  have key : ∀ n, (((List.range n).filter (· ≥ 1)).map fun i => if i < k then F else (0 : Rat)).sum =
      ((min k n - 1 : Nat) : Rat) * F := by
    intro n
    induction n with
    | zero => simp
    | succ n ih =>
      rw [List.range_succ, List.filter_append, List.map_append, List.sum_append, ih]
      by_cases hn : n ≥ 1
      · by_cases hnk : n < k
        · have e : min k (n + 1) - 1 = (min k n - 1) + 1 := by omega
          simp [hn, hnk, e]; ring
        · have e : min k (n + 1) - 1 = min k n - 1 := by omega
          simp [hn, hnk, e]
      · have hn0 : n = 0 := by omega
        subst hn0
        simp
  rw [key]
  by_cases h0 : 0 < k
  · have e : min k n - 1 = k - 1 := by omega
    rw [e, if_pos h0, Nat.cast_sub (by omega)]
    simp; ring
  · have e : k = 0 := by omega
    subst e
    simp

theorem slots_sum_aux (copies : String → String → Nat) (cnt : String → Nat) (F : MinorCand → Rat) (cs : List MinorCand)
    (hfit : ∀ c ∈ cs, copies c.major c.minor ≤ cnt c.major) :
    ((cs.map fun c => (c, (⟨c.major, c.minor, 0⟩ : MSlot))).map
        fun x => if x.2.idx < copies x.2.major x.2.minor then F x.1 else 0).sum +
    ((cs.flatMap fun c => ((List.range (cnt c.major)).filter (· ≥ 1)).map fun i => (c, (⟨c.major, c.minor, i⟩ : MSlot))).map
        fun x => if x.2.idx < copies x.2.major x.2.minor then F x.1 else 0).sum =
    (cs.map fun c => (copies c.major c.minor : Rat) * F c).sum := by
  induction cs with
  | nil => simp
  | cons c cs ih =>
    have ih' := ih (fun d hd => hfit d (by simp [hd]))
    have hc := cand_sum (copies c.major c.minor) (cnt c.major) (F c) (hfit c (by simp))
    simp only [List.map_cons, List.sum_cons, List.flatMap_cons, List.map_append, List.sum_append, List.map_map,
      Function.comp_def] at ih' hc ⊢
    linarith

/-- **slots_sum** a per-candidate quantity summed over the selected slots is the planted weight -/
theorem slots_sum (I : MinorInst) (copies : String → String → Nat) (F : MinorCand → Rat)
    (hfit : ∀ c ∈ I.cands, copies c.major c.minor ≤ I.count c.major) :
    (I.slots.map fun cs => if cs.2.idx < copies cs.2.major cs.2.minor then F cs.1 else 0).sum = I.weight copies F := by
  unfold MinorInst.slots MinorInst.weight
  rw [List.map_append, List.sum_append]
  exact slots_sum_aux copies I.count F I.cands hfit

theorem slot_mem (I : MinorInst) (cs : MinorCand × MSlot) (h : cs ∈ I.slots) :
    cs.1 ∈ I.cands ∧ cs.2.major = cs.1.major ∧ cs.2.minor = cs.1.minor := by
  unfold MinorInst.slots at h
  rcases List.mem_append.mp h with h | h
  · obtain ⟨c, hc, rfl⟩ := List.mem_map.mp h
    exact ⟨hc, rfl, rfl⟩
  · obtain ⟨c, hc, h2⟩ := List.mem_flatMap.mp h
    obtain ⟨i, _, rfl⟩ := List.mem_map.mp h2
    exact ⟨hc, rfl, rfl⟩

/-! ### the planted point -/

section Point
variable (copies : String → String → Nat) (choose : Nat → Option Nat)

/-- value of the selector of a slot at the planted point -/
def selv (s : MSlot) : Rat := if s.idx < copies s.major s.minor then 1 else 0

@[simp] theorem zσ_A (s : MSlot) : zeroσ copies choose (.A s) = selv copies s := rfl
@[simp] theorem zσ_K (m : Mut) (s : MSlot) : zeroσ copies choose (.K m s) = selv copies s := rfl
@[simp] theorem zσ_MULK (m : Mut) (s : MSlot) : zeroσ copies choose (.MULK m s) = selv copies s := rfl
@[simp] theorem zσ_N (m : Mut) (s : MSlot) : zeroσ copies choose (.N m s) = 0 := rfl
@[simp] theorem zσ_MULN (m : Mut) (s : MSlot) : zeroσ copies choose (.MULN m s) = 0 := rfl
@[simp] theorem zσ_E (m : Mut) : zeroσ copies choose (.E m) = 0 := rfl
@[simp] theorem zσ_ABS (m : Mut) : zeroσ copies choose (.ABS m) = 0 := rfl
@[simp] theorem zσ_VNEWOR (m : Mut) : zeroσ copies choose (.VNEWOR m) = 0 := rfl
@[simp] theorem zσ_PH3 (a r i : Nat) : zeroσ copies choose (.PH3 a r i) = 0 := rfl
theorem zσ_PH (a r : Nat) : zeroσ copies choose (.PH a r) = if choose r = some a then 1 else 0 := rfl
theorem zσ_PH2 (a r i : Nat) : zeroσ copies choose (.PH2 a r i) = zeroσ copies choose (.PH a r) := rfl

theorem selv_bin (s : MSlot) : IsBin (selv copies s) := by
  unfold selv; split_ifs <;> simp [IsBin]

theorem zσ_bin (v : NVar) : IsBin (zeroσ copies choose v) := by
  cases v <;> simp only [zeroσ] <;> (try split_ifs) <;> simp [IsBin]

end Point

/-- what it means for `copies` (copies per candidate minor allele) and `choose` (the slot every
read-phase pattern is attributed to) to be a zero-error explanation of the evidence of the
refinement instance `I` -/
structure PlantedMinor (I : MinorInst) (copies : String → String → Nat) (choose : Nat → Option Nat) : Prop where
  /-- no candidate is planted more often than its major allele is called -/
  fits : ∀ c ∈ I.cands, copies c.major c.minor ≤ I.count c.major
  /-- the planted candidates of a called major allele fill its copies exactly -/
  fills : ∀ mc ∈ I.majorSol, I.weight copies (fun c => ind (c.major == mc.1)) = (mc.2 : Rat)
  total : I.weight copies (fun _ => 1) ≤ (((I.majorSol.map (·.2)).sum : Nat) : Rat)
  /-- a planted candidate has gene copies at every position of its definition -/
  covered : ∀ c ∈ I.cands, 0 < copies c.major c.minor → ∀ m ∈ c.defMuts, I.hasCov c m.pos = true
  /-- every considered variant is observed on exactly the planted carriers -/
  variants : ∀ m ∈ I.mutations, I.observed m = I.carriersOf copies m
  /-- every reference row is observed on exactly the planted copies without a variant there -/
  reference : ∀ pos ∈ I.positions,
    I.observed (refMut' pos) = I.weight copies fun c => ind (I.hasCov c pos && (presentAt c pos).isEmpty)
  /-- a planted candidate has at most one variant per considered site -/
  single : ∀ c ∈ I.cands, 0 < copies c.major c.minor → ∀ pos ∈ I.positions, (keptAt c pos).length ≤ 1
  /-- rule 5: a variant with reads is carried, by no more copies than it has reads; one without reads is not carried -/
  supported : ∀ m ∈ I.mutations,
    if I.cn.positionCn I.gene m.pos == 0 || I.cov.coverage m == 0 then I.carriersOf copies m = 0
    else 1 ≤ I.carriersOf copies m ∧ I.carriersOf copies m ≤ I.cov.coverage m
  /-- rule 6 leaves room for the planted copies -/
  room : ∀ pos ∈ I.positions, I.weight copies (fun c => ((I.addAt c pos).length : Rat)) ≤ I.rule6Rhs pos
  /-- every read-phase pattern that some slot can explain is attributed to a cell ... -/
  phaseChosen : ∀ ri, ri < I.phases.length → (I.phaseCells.filter (·.ri == ri)) ≠ [] →
    ∃ c ∈ I.phaseCells, c.ri = ri ∧ choose ri = some c.ai
  /-- ... of a planted copy that agrees with the pattern at every site -/
  phaseAgrees : ∀ c ∈ I.phaseCells, choose c.ri = some c.ai →
    c.slot.idx < copies c.slot.major c.slot.minor ∧
      (∀ v ∈ c.pos, zeroσ copies choose v = 1) ∧ (∀ v ∈ c.neg, zeroσ copies choose v = 0)


section Feasible
variable (I : MinorInst) (copies : String → String → Nat) (choose : Nat → Option Nat)

/-- a selected slot belongs to a planted candidate -/
theorem sel_planted (cs : MinorCand × MSlot) (hcs : cs ∈ I.slots) (h : selv copies cs.2 ≠ 0) :
    cs.1 ∈ I.cands ∧ 0 < copies cs.1.major cs.1.minor := by
  obtain ⟨hc, h1, h2⟩ := slot_mem I cs hcs
  refine ⟨hc, ?_⟩
  unfold selv at h
  rw [h1, h2] at h
  by_contra h0
  have : copies cs.1.major cs.1.minor = 0 := by omega
  simp [this] at h

theorem selv_rw (cs : MinorCand × MSlot) :
    selv copies cs.2 = if cs.2.idx < copies cs.2.major cs.2.minor then 1 else 0 := rfl

/-- the planted selectors of the slots that satisfy `P`, summed -/
theorem sel_sum (hfit : ∀ c ∈ I.cands, copies c.major c.minor ≤ I.count c.major) (F : MinorCand → Rat) :
    (I.slots.map fun cs => selv copies cs.2 * F cs.1).sum = I.weight copies F := by
  rw [← slots_sum I copies F hfit]
  apply sum_map_congr
  intro cs _
  unfold selv
  split_ifs <;> simp

theorem varTerms_planted (hfit : ∀ c ∈ I.cands, copies c.major c.minor ≤ I.count c.major) (m : Mut) :
    evalTerms (zeroσ copies choose) (I.varTerms m) = I.carriersOf copies m := by
  unfold MinorInst.varTerms MinorInst.carriersOf
  rw [evalTerms_filterMap_sum, ← sel_sum I copies hfit]
  apply sum_map_congr
  intro cs _
  by_cases h1 : m ∈ cs.1.defMuts
  · simp [h1, MinorInst.one, MinorInst.ind]
  · by_cases h2 : I.hasCov cs.1 m.pos = true
    · simp [h1, h2, MinorInst.one, MinorInst.ind]
    · simp [h1, h2, MinorInst.ind]

theorem carrierTerms_planted (hfit : ∀ c ∈ I.cands, copies c.major c.minor ≤ I.count c.major) (m : Mut) :
    evalTerms (zeroσ copies choose) (I.carrierTerms m) = I.carriersOf copies m := by
  unfold MinorInst.carrierTerms MinorInst.carriersOf
  rw [evalTerms_append, evalTerms_filterMap_sum, evalTerms_filterMap_sum, ← sel_sum I copies hfit]
  have h2 : (I.slots.map fun x =>
      (if (I.newMuts x.1).contains m = true then some (MinorInst.one (NVar.MULN m x.2)) else none).elim 0
        fun t => t.1 * zeroσ copies choose t.2).sum = 0 := by
    apply sum_map_zero
    intro cs _
    by_cases h : m ∈ I.newMuts cs.1 <;> simp [h, MinorInst.one]
  rw [h2, add_zero]
  apply sum_map_congr
  intro cs _
  by_cases h1 : m ∈ cs.1.defMuts <;> simp [h1, MinorInst.one, MinorInst.ind]

theorem refTerms_planted (hfit : ∀ c ∈ I.cands, copies c.major c.minor ≤ I.count c.major) (pos : Int) :
    evalTerms (zeroσ copies choose) (I.refTerms pos) =
      I.weight copies fun c => ind (I.hasCov c pos && (presentAt c pos).isEmpty) := by
  unfold MinorInst.refTerms
  rw [evalTerms_flatMap_sum, ← sel_sum I copies hfit]
  apply sum_map_congr
  intro cs _
  have hz : evalTerms (zeroσ copies choose) ((I.newAt cs.1 pos).map fun m => ((-1 : Rat), NVar.MULN m cs.2)) = 0 := by
    apply evalTerms_zero_of
    intro t ht
    obtain ⟨m, _, rfl⟩ := List.mem_map.mp ht
    rfl
  by_cases h1 : I.hasCov cs.1 pos = true
  · cases hp : presentAt cs.1 pos with
    | nil => simp [h1, hp, MinorInst.one, MinorInst.neg, MinorInst.ind, hz]
    | cons p ps =>
      simp only [h1, hp, Bool.not_true, Bool.false_eq_true, if_false, List.isEmpty_cons, Bool.and_false,
        evalTerms_append, evalTerms_cons, evalTerms_nil, hz, MinorInst.one, MinorInst.neg, MinorInst.ind, zσ_A, zσ_MULK]
      ring
  · simp [h1, MinorInst.ind]

end Feasible

section Main
variable (I : MinorInst) (copies : String → String → Nat) (choose : Nat → Option Nat)

theorem prod_same (σ : NVar → Rat) (r a b : NVar) (x : Rat) (hx : IsBin x) (hr : σ r = x) (ha : σ a = x) (hb : σ b = x) :
    ∀ c ∈ prodCons r [a, b], c.holds σ := by
  intro c hc
  simp only [prodCons, List.map_cons, List.map_nil, List.cons_append, List.nil_append, List.mem_cons,
    List.mem_nil_iff, or_false] at hc
  rcases hx with h0 | h1
  · rcases hc with rfl | rfl | rfl <;> simp [LinCon.holds, leVar, hr, ha, hb, h0]
  · rcases hc with rfl | rfl | rfl <;> simp [LinCon.holds, leVar, hr, ha, hb, h1] <;> norm_num

theorem prod_zero (σ : NVar → Rat) (r a b : NVar) (hr : σ r = 0) (ha : IsBin (σ a)) (hb : IsBin (σ b))
    (hab : σ a = 0 ∨ σ b = 0) : ∀ c ∈ prodCons r [a, b], c.holds σ := by
  intro c hc
  simp only [prodCons, List.map_cons, List.map_nil, List.cons_append, List.nil_append, List.mem_cons,
    List.mem_nil_iff, or_false] at hc
  have ha0 := ha.nonneg; have hb0 := hb.nonneg; have ha1 := ha.le_one; have hb1 := hb.le_one
  rcases hc with rfl | rfl | rfl
  · simp [LinCon.holds, leVar, hr]; exact ha0
  · simp [LinCon.holds, leVar, hr]; exact hb0
  · simp only [LinCon.holds, evalTerms_cons, evalTerms_nil, hr]
    rcases hab with h | h <;> rw [h] <;> simp <;> linarith

/-- **planted_minor_feasible** under the clauses `PlantedMinor` the closed-form planted point
satisfies every constraint `solve_minor_model` emits, and scores 0 -/
theorem planted_minor_feasible (hP : PlantedMinor I copies choose)
    (hnd : (I.phaseCells.map fun c => (c.ai, c.ri)).Nodup) :
    I.build.Sat (zeroσ copies choose) ∧ I.build.objective (zeroσ copies choose) = 0 := by
  set σ := zeroσ copies choose with hσ
  have hfit := hP.fits
  refine ⟨⟨?_, ?_⟩, ?_⟩
  · -- variable kinds
    intro vk hvk
    simp only [MinorInst.build, List.mem_append, List.mem_map, List.mem_flatMap, List.mem_cons,
      List.mem_nil_iff, or_false] at hvk
    rcases hvk with (((((⟨cs, _, rfl⟩ | ⟨cs, _, m, _, rfl | rfl⟩) | ⟨cs, _, m, _, rfl | rfl⟩) | ⟨m, _, rfl⟩) |
      ⟨m, _, rfl⟩) | ⟨m, _, rfl⟩) | ⟨c, _, (rfl | ⟨vi, _, rfl⟩) | ⟨vi, _, rfl⟩⟩
    all_goals first
      | exact zσ_bin copies choose _
      | (simp [Kind.ok, hσ])
  · -- constraints
    intro c hc
    simp only [MinorInst.build, List.mem_append] at hc
    rcases hc with ((((((((((((hc | hc) | hc) | hc) | hc) | hc) | hc) | hc) | hc) | hc) | hc) | hc) | hc) | hc
    · -- CORD
      obtain ⟨cs, hcs, rfl⟩ := List.mem_map.mp hc
      rw [leVar_holds]
      have hpos : cs.2.idx > 0 := by simpa using (List.mem_filter.mp hcs).2
      simp only [hσ, zσ_A, selv]
      by_cases h1 : cs.2.idx < copies cs.2.major cs.2.minor
      · have h2 : cs.2.idx - 1 < copies cs.2.major cs.2.minor := by omega
        simp [h1, h2]
      · simp only [h1, if_false]
        split_ifs <;> norm_num
    · -- CCNT
      simp only [consCCNT, List.mem_append, List.mem_flatMap, List.mem_singleton] at hc
      rcases hc with ⟨mc, hmc, hc⟩ | rfl
      · have hsum : evalTerms σ ((I.slots.filter fun cs => cs.1.major == mc.1).map fun cs => MinorInst.one (.A cs.2)) = (mc.2 : Rat) := by
          rw [evalTerms_filter_map_sum, ← hP.fills mc hmc, ← sel_sum I copies hfit]
          apply sum_map_congr
          intro cs _
          by_cases h : (cs.1.major == mc.1) = true <;> simp [h, MinorInst.one, MinorInst.ind, hσ]
        simp only [List.mem_cons, List.mem_nil_iff, or_false] at hc
        rcases hc with rfl | rfl <;> simp only [LinCon.holds, hsum] <;> exact le_refl _
      · have hsum : evalTerms σ (I.slots.map fun cs => MinorInst.one (.A cs.2)) = I.weight copies (fun _ => 1) := by
          rw [evalTerms_map_sum, ← sel_sum I copies hfit]
          apply sum_map_congr
          intro cs _
          simp [MinorInst.one, hσ]
        simp only [LinCon.holds, hsum]
        exact hP.total
    · -- PROD
      obtain ⟨m, _, hc⟩ := List.mem_flatMap.mp hc
      obtain ⟨cs, _, hc⟩ := List.mem_flatMap.mp hc
      by_cases h1 : cs.1.defMuts.contains m = true
      · rw [if_pos h1] at hc
        exact prod_same σ _ _ _ (selv copies cs.2) (selv_bin copies cs.2) rfl rfl rfl c hc
      · rw [if_neg h1] at hc
        by_cases h2 : I.hasCov cs.1 m.pos = true
        · rw [if_pos h2] at hc
          exact prod_zero σ _ _ _ rfl (zσ_bin copies choose _) (zσ_bin copies choose _) (Or.inr rfl) c hc
        · rw [if_neg h2] at hc
          cases hc
    · -- CONE
      obtain ⟨pos, _, hc⟩ := List.mem_flatMap.mp hc
      obtain ⟨cs, _, hc⟩ := List.mem_filterMap.mp hc
      split_ifs at hc
      cases hc
      simp only [LinCon.holds]
      rw [evalTerms_zero_of]
      · norm_num
      · intro t ht
        obtain ⟨m, _, rfl⟩ := List.mem_map.mp ht
        rfl
    · -- CCOV
      simp only [consCCOV, List.mem_append, List.mem_flatMap] at hc
      rcases hc with ⟨m, hm, hc⟩ | ⟨pos, hp, hc⟩
      · have hsum : evalTerms σ (I.varTerms m ++ [MinorInst.one (.E m)]) = I.observed m := by
          rw [evalTerms_append, hσ, varTerms_planted I copies choose hfit, hP.variants m hm]
          simp [MinorInst.one]
        simp only [eqc, List.mem_cons, List.mem_nil_iff, or_false] at hc
        rcases hc with rfl | rfl <;> simp only [LinCon.holds, hsum] <;> exact le_refl _
      · have hsum : evalTerms σ (I.refTerms pos ++ [MinorInst.one (.E (refMut' pos))]) = I.observed (refMut' pos) := by
          rw [evalTerms_append, hσ, refTerms_planted I copies choose hfit, hP.reference pos hp]
          simp [MinorInst.one]
        simp only [eqc, List.mem_cons, List.mem_nil_iff, or_false] at hc
        rcases hc with rfl | rfl <;> simp only [LinCon.holds, hsum] <;> exact le_refl _
    · -- RULE1
      simp only [consRULE1, List.mem_append, List.mem_flatMap, List.mem_map] at hc
      rcases hc with ⟨cs, _, m, _, rfl⟩ | ⟨cs, _, m, _, rfl⟩
      · rw [leVar_holds]; exact le_refl _
      · rw [leVar_holds]; exact (selv_bin copies cs.2).nonneg
    · -- RULE2
      simp only [consRULE2, List.mem_flatMap, List.mem_map] at hc
      obtain ⟨cs, _, m, _, rfl⟩ := hc
      simp [LinCon.holds, MinorInst.one, MinorInst.neg, hσ]
    · -- RULE3
      simp only [consRULE3, List.mem_flatMap, List.mem_map] at hc
      obtain ⟨cs, hcs, m, hm, rfl⟩ := hc
      obtain ⟨hm1, hm2⟩ := List.mem_filter.mp hm
      simp only [LinCon.holds, evalTerms_cons, evalTerms_nil, MinorInst.one, hσ, zσ_K]
      by_cases hs : selv copies cs.2 = 0
      · simp [hs]
      · obtain ⟨hc1, hc2⟩ := sel_planted I copies cs hcs hs
        have := hP.covered cs.1 hc1 hc2 m hm1
        simp [this] at hm2
    · -- RULE4
      obtain ⟨pos, hpos, hc⟩ := List.mem_flatMap.mp hc
      obtain ⟨cs, hcs, hc⟩ := List.mem_flatMap.mp hc
      have hma : evalTerms σ ((I.addAt cs.1 pos).map fun m => MinorInst.one (.MULN m cs.2)) = 0 := by
        apply evalTerms_zero_of
        intro t ht
        obtain ⟨m, _, rfl⟩ := List.mem_map.mp ht
        rfl
      have hmp : evalTerms σ ((keptAt cs.1 pos).map fun m => MinorInst.one (.MULK m cs.2)) ≤ 1 := by
        rw [evalTerms_map_sum]
        by_cases hs : selv copies cs.2 = 0
        · rw [sum_map_zero]
          · norm_num
          · intro m _
            simp [MinorInst.one, hσ, hs]
        · obtain ⟨hc1, hc2⟩ := sel_planted I copies cs hcs hs
          have hlen := hP.single cs.1 hc1 hc2 pos hpos
          have hb := (selv_bin copies cs.2).le_one
          match hk : keptAt cs.1 pos with
          | [] => simp
          | [x] => simpa [MinorInst.one, hσ] using hb
          | x :: y :: l => rw [hk] at hlen; simp at hlen
      rcases List.mem_append.mp hc with hc | hc
      · split_ifs at hc
        · simp only [List.mem_singleton] at hc
          subst hc
          simp only [LinCon.holds, hma]; norm_num
        · cases hc
      · split_ifs at hc
        · simp only [List.mem_singleton] at hc
          subst hc
          simp only [LinCon.holds, evalTerms_append, hma]; linarith
        · cases hc
    · -- RULE5
      obtain ⟨m, hm, hc⟩ := List.mem_flatMap.mp hc
      have hs := hP.supported m hm
      have hsum := carrierTerms_planted I copies choose hfit m
      by_cases h : (I.cn.positionCn I.gene m.pos == 0 || I.cov.coverage m == 0) = true
      · rw [if_pos h] at hc hs
        simp only [List.mem_singleton] at hc
        subst hc
        simp only [LinCon.holds, hσ, hsum, hs]; exact le_refl _
      · rw [if_neg h] at hc hs
        simp only [List.mem_cons, List.mem_nil_iff, or_false] at hc
        rcases hc with rfl | rfl <;> simp only [LinCon.holds, hσ, hsum]
        · exact hs.2
        · exact hs.1
    · -- RULE6
      unfold MinorInst.consRULE6 at hc
      split_ifs at hc
      · cases hc
      · obtain ⟨pos, hpos, rfl⟩ := List.mem_map.mp hc
        simp only [LinCon.holds]
        refine le_trans (le_of_eq ?_) (hP.room pos hpos)
        unfold MinorInst.rule6Per
        rw [List.flatMap_map, evalTerms_flatMap_sum, ← sel_sum I copies hfit]
        apply sum_map_congr
        intro cs _
        simp only [evalTerms_cons, List.map_append, evalTerms_append, List.map_map, List.length_append, List.length_map,
          hσ, zσ_A]
        have e1 : evalTerms (zeroσ copies choose) ((keptAt cs.1 pos).map (MinorInst.neg ∘ fun m => NVar.MULK m cs.2)) =
            -((keptAt cs.1 pos).length : Rat) * selv copies cs.2 := by
          rw [evalTerms_map_sum]
          induction keptAt cs.1 pos with
          | nil => simp
          | cons x xs ih => simp only [List.map_cons, List.sum_cons, ih, List.length_cons]; simp [MinorInst.neg]; ring
        have e2 : evalTerms (zeroσ copies choose) ((I.addAt cs.1 pos).map (MinorInst.neg ∘ fun m => NVar.MULN m cs.2)) = 0 := by
          apply evalTerms_zero_of
          intro t ht
          obtain ⟨m, _, rfl⟩ := List.mem_map.mp ht
          rfl
        rw [e1, e2]
        push_cast
        ring
    · -- PHASE
      simp only [consPHASE, List.mem_append, List.mem_flatMap] at hc
      rcases hc with ⟨cell, hcell, hc⟩ | ⟨ri, hri, hc⟩
      · have hPH : σ (.PH cell.ai cell.ri) = if choose cell.ri = some cell.ai then 1 else 0 := rfl
        simp only [List.mem_cons, List.mem_append, List.mem_flatMap] at hc
        rcases hc with (rfl | ⟨vi, hvi, hc⟩) | ⟨vi, hvi, hc⟩
        · rw [leVar_holds, hPH]
          by_cases hch : choose cell.ri = some cell.ai
          · have := (hP.phaseAgrees cell hcell hch).1
            simp [hch, hσ, selv, this]
          · simp only [hch, if_false]
            exact (zσ_bin copies choose _).nonneg
        · have hmem : vi.1 ∈ cell.pos := (List.of_mem_zip ((List.zipIdx_eq_zip_range' ..) ▸ hvi)).1
          by_cases hch : choose cell.ri = some cell.ai
          · have h1 := (hP.phaseAgrees cell hcell hch).2.1 vi.1 hmem
            refine prod_same σ _ _ _ 1 (Or.inr rfl) ?_ ?_ h1 c hc
            · rw [hσ, zσ_PH2, ← hσ, hPH, if_pos hch]
            · rw [hPH, if_pos hch]
          · refine prod_zero σ _ _ _ ?_ (zσ_bin copies choose _) (zσ_bin copies choose _) (Or.inl ?_) c hc
            · rw [hσ, zσ_PH2, ← hσ, hPH, if_neg hch]
            · rw [hPH, if_neg hch]
        · have hmem : vi.1 ∈ cell.neg := (List.of_mem_zip ((List.zipIdx_eq_zip_range' ..) ▸ hvi)).1
          refine prod_zero σ _ _ _ rfl (zσ_bin copies choose _) (zσ_bin copies choose _) ?_ c hc
          by_cases hch : choose cell.ri = some cell.ai
          · exact Or.inr ((hP.phaseAgrees cell hcell hch).2.2 vi.1 hmem)
          · left; rw [hPH, if_neg hch]
      · have hri' : ri < I.phases.length := List.mem_range.mp hri
        set l := I.phaseCells.filter (fun c => c.ri == ri) with hl
        by_cases hemp : l = []
        · simp [hemp] at hc
        · have hne : ((l.map fun c => MinorInst.one (NVar.PH c.ai c.ri)).isEmpty) = false := by
            cases hl' : l with
            | nil => exact absurd hl' hemp
            | cons x xs => simp
          simp only [hne, Bool.false_eq_true, if_false, List.mem_cons, List.mem_nil_iff, or_false] at hc
          obtain ⟨c0, hc0, hr0, hch0⟩ := hP.phaseChosen ri hri' hemp
          have hc0l : c0 ∈ l := List.mem_filter.mpr ⟨hc0, by simp [hr0]⟩
          have hri_of : ∀ c ∈ l, c.ri = ri := by
            intro c hcl
            simpa using (List.mem_filter.mp hcl).2
          have hnd2 : (l.map fun c => c.ai).Nodup := by
            have h1 : (l.map fun c => (c.ai, c.ri)).Nodup := List.Nodup.sublist (List.Sublist.map _ List.filter_sublist) hnd
            have h2 : (l.map fun c => (c.ai, c.ri)) = (l.map fun c => c.ai).map fun a => (a, ri) := by
              rw [List.map_map]
              apply List.map_congr_left
              intro c hcl
              simp [hri_of c hcl]
            rw [h2] at h1
            exact List.Nodup.of_map _ h1
          have hsum : evalTerms σ (l.map fun c => MinorInst.one (NVar.PH c.ai c.ri)) = 1 := by
            rw [evalTerms_map_sum]
            have := indicator_sum_nodup (l.map fun c => c.ai) c0.ai hnd2 (List.mem_map.mpr ⟨c0, hc0l, rfl⟩)
            rw [List.map_map] at this
            rw [← this]
            apply sum_map_congr
            intro c hcl
            have e : σ (.PH c.ai c.ri) = if choose c.ri = some c.ai then 1 else 0 := rfl
            show (1 : Rat) * σ (.PH c.ai c.ri) = if c.ai = c0.ai then 1 else 0
            rw [one_mul, e, hri_of c hcl, hch0]
            by_cases h : c.ai = c0.ai
            · simp [h]
            · have : ¬ (some c0.ai = some c.ai) := fun e => h (Option.some.inj e).symm
              rw [if_neg this, if_neg h]
          rcases hc with rfl | rfl <;> simp only [LinCon.holds, hsum] <;> exact le_refl _
    · -- ABS
      obtain ⟨m, _, hc⟩ := List.mem_flatMap.mp hc
      simp only [absCons, List.mem_cons, List.mem_nil_iff, or_false] at hc
      rcases hc with rfl | rfl <;> simp [LinCon.holds, hσ]
    · -- VNEWOR
      obtain ⟨m, _, hc⟩ := List.mem_flatMap.mp hc
      have hz : ∀ v ∈ I.novelCoreSel m, σ v = 0 := by
        intro v hv
        obtain ⟨cs, _, h⟩ := List.mem_filterMap.mp hv
        split_ifs at h
        cases h
        rfl
      simp only [orCons, List.mem_cons, List.mem_map] at hc
      rcases hc with rfl | ⟨x, hx, rfl⟩
      · simp only [LinCon.holds, evalTerms_cons]
        rw [evalTerms_zero_of]
        · simp [hσ]
        · intro t ht
          obtain ⟨v, hv, rfl⟩ := List.mem_map.mp ht
          exact hz v hv
      · have h0 := hz x hx
        simp only [hσ] at h0
        simp [LinCon.holds, h0, hσ]
  · -- objective
    simp only [Ilp.objective, MinorInst.build, evalTerms_append]
    have o1 : evalTerms σ (I.errRows.map fun m => ((1 : Rat), NVar.ABS m)) = 0 := by
      apply evalTerms_zero_of
      intro t ht
      obtain ⟨m, _, rfl⟩ := List.mem_map.mp ht
      rfl
    have o23 : evalTerms σ (I.slots.map fun cs => (I.minorMiss * (cs.1.defMuts.length : Rat), NVar.A cs.2)) +
        evalTerms σ (I.slots.flatMap fun cs => cs.1.defMuts.map fun m => (-I.minorMiss, NVar.MULK m cs.2)) = 0 := by
      rw [evalTerms_map_sum, evalTerms_flatMap_sum, sum_add_sum]
      apply sum_map_zero
      intro cs _
      have : evalTerms σ (cs.1.defMuts.map fun m => (-I.minorMiss, NVar.MULK m cs.2)) =
          -I.minorMiss * (cs.1.defMuts.length : Rat) * selv copies cs.2 := by
        induction cs.1.defMuts with
        | nil => simp
        | cons x xs ih =>
          simp only [List.map_cons, evalTerms_cons, List.length_cons]
          rw [ih]
          simp only [hσ, zσ_MULK]
          push_cast; ring
      rw [this]
      simp only [hσ, zσ_A]
      ring
    have o4 : evalTerms σ (I.newSelectors.zipIdx.map fun e =>
        (I.minorAdd * (1 + (e.2 : Rat) / Const.MINOR_TIEBREAK_DIV), NVar.N e.1.1 e.1.2)) = 0 := by
      apply evalTerms_zero_of
      intro t ht
      obtain ⟨e, _, rfl⟩ := List.mem_map.mp ht
      rfl
    have o5 : evalTerms σ (I.novelMuts.map fun m => (I.minorAdd / Const.MINOR_NOVEL_DIV, NVar.VNEWOR m)) = 0 := by
      apply evalTerms_zero_of
      intro t ht
      obtain ⟨e, _, rfl⟩ := List.mem_map.mp ht
      rfl
    have o6 : evalTerms σ I.phaseObj = 0 := by
      unfold MinorInst.phaseObj
      rw [evalTerms_flatMap_sum]
      apply sum_map_zero
      intro c _
      rw [evalTerms_append, evalTerms_flatMap_sum, sum_map_zero, zero_add]
      · apply evalTerms_zero_of
        intro t ht
        obtain ⟨e, _, rfl⟩ := List.mem_map.mp ht
        rfl
      · intro vi _
        simp only [evalTerms_cons, evalTerms_nil, hσ, zσ_PH2]
        ring
    linarith

end Main

/-! ### the phase cells are keyed by (slot index, pattern index) without repetition -/

theorem map_filterMap_eq {A B C : Type} (L : List A) (g : A → Option C) (k : C → B) (k' : A → B)
    (h : ∀ a x, g a = some x → k x = k' a) :
    (L.filterMap g).map k = (L.filter fun a => (g a).isSome).map k' := by
  induction L with
  | nil => simp
  | cons a L ih =>
    rw [List.filterMap_cons, List.filter_cons]
    cases hg : g a with
    | none => simp [ih]
    | some x => simp [ih, h a x hg]

theorem zipIdx_pairwise_snd {A : Type} (l : List A) : (l.zipIdx).Pairwise fun a b => a.2 ≠ b.2 := by
  have h : (l.zipIdx.map (·.2)).Nodup := by
    rw [List.zipIdx_map_snd]; exact List.nodup_range'
  exact List.pairwise_map.mp h

theorem phaseCells_keys_nodup (I : MinorInst) : (I.phaseCells.map fun c => (c.ai, c.ri)).Nodup := by
  unfold MinorInst.phaseCells
  rw [List.map_flatMap, List.nodup_flatMap]
  have hkey : ∀ (rc : (List (Int × String) × Nat) × Nat) (ca : (MinorCand × MSlot) × Nat) (x : PhaseCell),
      (let sel := I.phaseSel ca.1 rc.1.1
       if sel.1.length + sel.2.length > 1 then some (⟨ca.2, rc.2, ca.1.2, sel.1, sel.2, rc.1.2⟩ : PhaseCell) else none) = some x →
      (x.ai, x.ri) = (ca.2, rc.2) := by
    intro rc ca x h
    simp only at h
    split_ifs at h
    cases h
    rfl
  constructor
  · intro rc _
    rw [map_filterMap_eq _ _ _ (fun ca => (ca.2, rc.2)) (hkey rc)]
    have h1 : ((I.slots.zipIdx.filter fun a =>
        (let sel := I.phaseSel a.1 rc.1.1
         if sel.1.length + sel.2.length > 1 then some (⟨a.2, rc.2, a.1.2, sel.1, sel.2, rc.1.2⟩ : PhaseCell) else none).isSome).map (·.2)).Nodup := by
      refine List.Nodup.sublist (List.Sublist.map _ List.filter_sublist) ?_
      rw [List.zipIdx_map_snd]; exact List.nodup_range'
    have h2 := List.Nodup.map (f := fun n : Nat => (n, rc.2)) (fun a b e => (Prod.mk.inj e).1) h1
    rw [List.map_map] at h2
    exact h2
  · refine List.Pairwise.imp ?_ (zipIdx_pairwise_snd I.phases)
    intro rc rc' hne
    simp only [Function.onFun]
    intro k hk hk'
    obtain ⟨x, hx, rfl⟩ := List.mem_map.mp hk
    obtain ⟨y, hy, hxy⟩ := List.mem_map.mp hk'
    obtain ⟨ca, _, hgx⟩ := List.mem_filterMap.mp hx
    obtain ⟨ca', _, hgy⟩ := List.mem_filterMap.mp hy
    have e1 := hkey rc ca x hgx
    have e2 := hkey rc' ca' y hgy
    rw [e1, e2] at hxy
    exact hne (Prod.mk.inj hxy).2.symm

/-- **planted_minor_feasible'** (no side condition left): the clauses alone suffice -/
theorem planted_minor_zero (I : MinorInst) (copies : String → String → Nat) (choose : Nat → Option Nat)
    (hP : PlantedMinor I copies choose) :
    I.build.Sat (zeroσ copies choose) ∧ I.build.objective (zeroσ copies choose) = 0 :=
  planted_minor_feasible I copies choose hP (phaseCells_keys_nodup I)

/-- **planted_minor_optima_exact** with zero-error evidence (clauses `PlantedMinor`) every optimum
of the refinement model carries every considered variant on exactly the planted number of
copies - kept definition variants and additions together: nothing added, nothing lost -/
theorem planted_minor_optima_exact (I : MinorInst) (copies : String → String → Nat) (choose : Nat → Option Nat)
    (hP : PlantedMinor I copies choose) (τ : NVar → Rat) (hτ : I.build.Sat τ)
    (hmiss : 0 ≤ I.minorMiss) (hadd : 0 ≤ I.minorAdd) (hph : 0 ≤ I.minorPhase)
    (hdef : ∀ cs ∈ I.slots, ∀ m ∈ cs.1.defMuts, m ∈ I.mutations)
    (hopt : ∀ ρ, I.build.Sat ρ → I.build.objective τ ≤ I.build.objective ρ) :
    ∀ m ∈ I.mutations, evalTerms τ (I.varTerms m) = I.carriersOf copies m := by
  obtain ⟨hs, h0⟩ := planted_minor_zero I copies choose hP
  intro m hm
  rw [← hP.variants m hm]
  exact minor_optima_exact I τ (zeroσ copies choose) hτ hmiss hadd hph hdef hs (le_of_eq h0) (hopt _ hs) m hm

/-- **minor_objective_nonneg** the objective of the refinement model is non-negative at every
feasible point -/
theorem minor_objective_nonneg (I : MinorInst) (σ : NVar → Rat) (h : I.build.Sat σ)
    (hmiss : 0 ≤ I.minorMiss) (hadd : 0 ≤ I.minorAdd) (hph : 0 ≤ I.minorPhase)
    (hdef : ∀ cs ∈ I.slots, ∀ m ∈ cs.1.defMuts, m ∈ I.mutations) :
    0 ≤ I.build.objective σ := by
  have h1 := minor_objective_ge_error I σ h hmiss hadd hph hdef
  have h2 : 0 ≤ (I.errRows.map fun m => |σ (.E m)|).sum := (by
    apply list_sum_nonneg
    intro y hy
    obtain ⟨m, _, rfl⟩ := List.mem_map.mp hy
    exact abs_nonneg _)
  linarith


/-- **plantedMinorB_iff** the boolean the driver evaluates on the real inputs of
`solve_minor_model` is exactly the hypothesis `PlantedMinor` of the theorems above -/
theorem plantedMinorB_iff (I : MinorInst) (copies : String → String → Nat) (choose : Nat → Option Nat) :
    I.plantedMinorB copies choose = true ↔ PlantedMinor I copies choose := by
  simp only [plantedMinorB, plantedMinorClauses, List.all_cons, List.all_nil, Bool.and_true, Bool.and_eq_true,
    List.all_eq_true, List.any_eq_true, Bool.or_eq_true, decide_eq_true_eq, Bool.not_eq_true', decide_eq_false_iff_not,
    List.isEmpty_iff, beq_iff_eq]
  constructor
  · rintro ⟨h1, h2, h3, h4, h5, h6, h7, h8, h9, h10, h11⟩
    refine ⟨h1, h2, h3, ?_, h5, h6, ?_, ?_, h9, ?_, ?_⟩
    · intro c hc hk m hm
      rcases h4 c hc with h | h
      · omega
      · exact h m hm
    · intro c hc hk pos hp
      rcases h7 c hc with h | h
      · omega
      · exact h pos hp
    · intro m hm
      have := h8 m hm
      by_cases hc : CNSol.positionCn I.gene I.cn m.pos = 0 ∨ I.cov.coverage m = 0
      · have hb : (CNSol.positionCn I.gene I.cn m.pos == 0 || I.cov.coverage m == 0) = true := by simpa using hc
        rw [if_pos hc] at this
        rw [if_pos hb]
        exact of_decide_eq_true this
      · have hb : ¬ (CNSol.positionCn I.gene I.cn m.pos == 0 || I.cov.coverage m == 0) = true := by simpa using hc
        rw [if_neg hc] at this
        rw [if_neg hb]
        simpa using this
    · intro ri hri hne
      rcases h10 ri (List.mem_range.mpr hri) with h | ⟨c, hc, hr, hch⟩
      · exact absurd h hne
      · exact ⟨c, hc, hr, hch⟩
    · intro c hc hch
      rcases h11 c hc with h | h
      · exact absurd hch h
      · exact ⟨h.1.1, h.1.2, h.2⟩
  · intro h
    refine ⟨h.fits, h.fills, h.total, ?_, h.variants, h.reference, ?_, ?_, h.room, ?_, ?_⟩
    · intro c hc
      by_cases hk : copies c.major c.minor = 0
      · exact Or.inl hk
      · exact Or.inr (h.covered c hc (by omega))
    · intro c hc
      by_cases hk : copies c.major c.minor = 0
      · exact Or.inl hk
      · exact Or.inr (h.single c hc (by omega))
    · intro m hm
      have := h.supported m hm
      by_cases hc : CNSol.positionCn I.gene I.cn m.pos = 0 ∨ I.cov.coverage m = 0
      · have hb : (CNSol.positionCn I.gene I.cn m.pos == 0 || I.cov.coverage m == 0) = true := by simpa using hc
        rw [if_pos hb] at this
        rw [if_pos hc]
        exact decide_eq_true this
      · have hb : ¬ (CNSol.positionCn I.gene I.cn m.pos == 0 || I.cov.coverage m == 0) = true := by simpa using hc
        rw [if_neg hb] at this
        rw [if_neg hc]
        simpa using this
    · intro ri hri
      by_cases hne : I.phaseCells.filter (fun c => c.ri == ri) = []
      · exact Or.inl hne
      · obtain ⟨c, hc, hr, hch⟩ := h.phaseChosen ri (List.mem_range.mp hri) hne
        exact Or.inr ⟨c, hc, hr, hch⟩
    · intro c hc
      by_cases hch : choose c.ri = some c.ai
      · obtain ⟨a, b, d⟩ := h.phaseAgrees c hc hch
        exact Or.inr ⟨⟨a, b⟩, d⟩
      · exact Or.inl hch

/-! ### non-vacuity: the example instance of C04 (one copy of `1.002`, one of `2.001`), without
and with a read-phase pattern that the planted copy of `2.001` explains -/

def exCopies : String → String → Nat := fun ma mi =>
  if ma == "1" && mi == "1.002" then 1 else if ma == "2" && mi == "2.001" then 1 else 0

example : exMInst.plantedMinorB exCopies (fun _ => none) = true := by decide +kernel

def exMInstPhased : MinorInst := { exMInst with phases := [([(10, "A>G"), (20, "_")], 3)] }

example : exMInstPhased.phaseCells.length = 3 := by decide +kernel
example : exMInstPhased.plantedMinorB exCopies (fun ri => if ri = 0 then some 2 else none) = true := by decide +kernel

example : exMInstPhased.build.objective (zeroσ exCopies (fun ri => if ri = 0 then some 2 else none)) = 0 :=
  (planted_minor_zero _ _ _ ((plantedMinorB_iff _ _ _).mp (by decide +kernel))).2

end Aldy
