import Aldy.Props.C06

/-!
# C06, continued — from the observations of the reads to `Coverage.total(pos)`

`_make_coverage` files every observation under its position and allele.  Here: the table it
builds keeps one entry per allele of a site (`makeTable_inv`), and the depth the stages read
from it - `Coverage.total(pos)`, the number of non-insertion observations filed under `pos` -
is exactly the number of non-insertion observations the reads produced at `pos`
(`makeTable_totalPos`).  With `depth_total_general` this makes `total(pos)` the number of
eligible reads that span `pos`.
-/

namespace Aldy

abbrev OpsT := List (String × List Obs)
abbrev TableT := List (Int × OpsT)

/-- non-insertion observations of one site -/
def opsDepth (ops : OpsT) : Nat := ((ops.filter fun x => !opIsIns x.1).map fun x => x.2.length).sum

def tableDepth (t : TableT) (p : Int) : Nat := opsDepth ((t.lookup p).getD [])

/-- the allele keys of every site are distinct -/
def TableInv (t : TableT) : Prop := ∀ e ∈ t, (e.2.map (·.1)).Nodup

/-- `addObs` on the alleles of one site -/
def addOp (ops : OpsT) (op : String) (o : Obs) : OpsT :=
  if ops.any (fun x => x.1 == op) then ops.map (fun x => if x.1 == op then (x.1, x.2 ++ [o]) else x)
  else ops ++ [(op, [o])]

theorem addOp_keys (ops : OpsT) (op : String) (o : Obs) (h : (ops.map (·.1)).Nodup) :
    ((addOp ops op o).map (·.1)).Nodup := by
  unfold addOp
  split
  · have : (ops.map fun x => if (x.1 == op) = true then (x.1, x.2 ++ [o]) else x).map (·.1) = ops.map (·.1) := by
      rw [List.map_map]; apply List.map_congr_left; intro x _; simp only [Function.comp]; split <;> rfl
    rw [this]; exact h
  · rename_i hn
    rw [List.map_append, List.nodup_append]
    refine ⟨h, by simp, ?_⟩
    intro a ha b hb hab
    simp only [List.map_cons, List.map_nil, List.mem_singleton] at hb
    subst hab hb
    obtain ⟨x, hx, hxk⟩ := List.mem_map.mp ha
    exact hn (List.any_eq_true.mpr ⟨x, hx, by simp [hxk]⟩)

theorem opsDepth_cons (x : String × List Obs) (xs : OpsT) :
    opsDepth (x :: xs) = (if opIsIns x.1 then 0 else x.2.length) + opsDepth xs := by
  unfold opsDepth
  simp only [List.filter_cons]
  cases opIsIns x.1 <;> simp

theorem opsDepth_append (a b : OpsT) : opsDepth (a ++ b) = opsDepth a + opsDepth b := by
  unfold opsDepth
  simp only [List.filter_append, List.map_append, List.sum_append]

theorem map_update_absent (ops : OpsT) (op : String) (o : Obs) (h : op ∉ ops.map (·.1)) :
    (ops.map fun x => if x.1 == op then (x.1, x.2 ++ [o]) else x) = ops := by
  conv_rhs => rw [← List.map_id ops]
  apply List.map_congr_left
  intro x hx
  have : x.1 ≠ op := fun hk => h (List.mem_map.mpr ⟨x, hx, hk⟩)
  simp [this]

theorem addOp_depth (ops : OpsT) (op : String) (o : Obs) (h : (ops.map (·.1)).Nodup) :
    opsDepth (addOp ops op o) = opsDepth ops + (if opIsIns op then 0 else 1) := by
  unfold addOp
  split
  · rename_i hany
    induction ops with
    | nil => simp at hany
    | cons x xs ih =>
      rw [List.map_cons, List.nodup_cons] at h
      by_cases hx : x.1 = op
      · have hb : (x.1 == op) = true := by simpa using hx
        have habs : op ∉ xs.map (·.1) := by rw [← hx]; exact h.1
        rw [List.map_cons, map_update_absent xs op o habs]
        simp only [hb, if_true]
        rw [opsDepth_cons, opsDepth_cons]
        simp only [hx, List.length_append, List.length_cons, List.length_nil]
        split <;> omega
      · have hb : (x.1 == op) = false := by simpa using hx
        have hany' : xs.any (fun x => x.1 == op) = true := by
          simp only [List.any_cons, hb, Bool.false_or] at hany; exact hany
        rw [List.map_cons]
        simp only [hb, Bool.false_eq_true, if_false]
        rw [opsDepth_cons, opsDepth_cons, ih h.2 hany']
        omega
  · rw [opsDepth_append, opsDepth_cons]
    simp [opsDepth]

/-- `addObs` in terms of `addOp` -/
theorem addObs_eq (t : TableT) (pos : Int) (op : String) (o : Obs) :
    addObs t pos op o =
      if t.any (fun e => e.1 == pos) then t.map (fun e => if e.1 == pos then (e.1, addOp e.2 op o) else e)
      else t ++ [(pos, [(op, [o])])] := rfl

theorem addObs_inv (t : TableT) (pos : Int) (op : String) (o : Obs) (h : TableInv t) :
    TableInv (addObs t pos op o) := by
  rw [addObs_eq]
  split
  · intro e he
    obtain ⟨e0, he0, rfl⟩ := List.mem_map.mp he
    split
    · exact addOp_keys _ _ _ (h e0 he0)
    · exact h e0 he0
  · intro e he
    rcases List.mem_append.mp he with h1 | h1
    · exact h e h1
    · simp only [List.mem_singleton] at h1
      subst h1; simp

theorem lookup_none_of_not_any (t : TableT) (pos : Int) (h : t.any (fun e => e.1 == pos) = false) :
    t.lookup pos = none := by
  induction t with
  | nil => rfl
  | cons e es ih =>
    obtain ⟨k, v⟩ := e
    simp only [List.any_cons, Bool.or_eq_false_iff] at h
    have hk : (pos == k) = false := by
      have := h.1
      simp only [beq_eq_false_iff_ne, ne_eq] at this ⊢
      exact fun hh => this hh.symm
    simp only [List.lookup_cons, hk]
    exact ih h.2

theorem lookup_append_table (t1 t2 : TableT) (p : Int) :
    (t1 ++ t2).lookup p = match t1.lookup p with | some v => some v | none => t2.lookup p := by
  induction t1 with
  | nil => rfl
  | cons e es ih =>
    obtain ⟨k, v⟩ := e
    simp only [List.cons_append, List.lookup_cons]
    cases p == k
    · exact ih
    · rfl

theorem lookup_map_other (t : TableT) (pos p : Int) (f : OpsT → OpsT) (hp : p ≠ pos) :
    (t.map fun e => if e.1 == pos then (e.1, f e.2) else e).lookup p = t.lookup p := by
  induction t with
  | nil => rfl
  | cons e es ih =>
    obtain ⟨k, v⟩ := e
    simp only [List.map_cons]
    by_cases hk : k = pos
    · subst hk
      have hpk : (p == k) = false := by simpa using hp
      simp only [beq_self_eq_true, if_true, List.lookup_cons, hpk]
      exact ih
    · have hkb : (k == pos) = false := by simpa using hk
      simp only [hkb, Bool.false_eq_true, if_false, List.lookup_cons]
      cases p == k
      · exact ih
      · rfl

theorem lookup_map_self (t : TableT) (pos : Int) (f : OpsT → OpsT) :
    (t.map fun e => if e.1 == pos then (e.1, f e.2) else e).lookup pos = (t.lookup pos).map f := by
  induction t with
  | nil => rfl
  | cons e es ih =>
    obtain ⟨k, v⟩ := e
    simp only [List.map_cons]
    by_cases hk : k = pos
    · subst hk
      simp only [beq_self_eq_true, if_true, List.lookup_cons, Option.map_some]
    · have hkb : (k == pos) = false := by simpa using hk
      have hpk : (pos == k) = false := by simpa using (fun hh : pos = k => hk hh.symm)
      simp only [hkb, Bool.false_eq_true, if_false, List.lookup_cons, hpk]
      exact ih

theorem lookup_mem (t : TableT) (pos : Int) (v : OpsT) (h : t.lookup pos = some v) : (pos, v) ∈ t := by
  induction t with
  | nil => cases h
  | cons e es ih =>
    obtain ⟨k, w⟩ := e
    simp only [List.lookup_cons] at h
    cases hk : pos == k
    · rw [hk] at h; exact List.mem_cons_of_mem _ (ih h)
    · rw [hk] at h
      have : pos = k := by simpa using hk
      cases h; subst this; exact List.mem_cons_self

theorem lookup_some_of_any (t : TableT) (pos : Int) (h : t.any (fun e => e.1 == pos) = true) :
    ∃ v, t.lookup pos = some v := by
  induction t with
  | nil => simp at h
  | cons e es ih =>
    obtain ⟨k, w⟩ := e
    simp only [List.lookup_cons]
    cases hk : pos == k
    · have hk' : (k == pos) = false := by
        simp only [beq_eq_false_iff_ne, ne_eq] at hk ⊢
        exact fun hh => hk hh.symm
      simp only [List.any_cons, hk', Bool.false_or] at h
      exact ih h
    · exact ⟨w, rfl⟩

theorem addObs_depth (t : TableT) (pos : Int) (op : String) (o : Obs) (h : TableInv t) (p : Int) :
    tableDepth (addObs t pos op o) p = tableDepth t p + (if pos == p && !opIsIns op then 1 else 0) := by
  rw [addObs_eq]
  unfold tableDepth
  split
  · by_cases hp : p = pos
    · subst hp
      rename_i hany
      have hms := lookup_map_self t p (fun x => addOp x op o)
      rw [hms]
      obtain ⟨v, hl⟩ := lookup_some_of_any t p hany
      have hv : (v.map (·.1)).Nodup := h (p, v) (lookup_mem t p v hl)
      rw [hl]
      simp only [Option.map_some, Option.getD_some, beq_self_eq_true, Bool.true_and]
      rw [addOp_depth v op o hv]
      cases opIsIns op <;> simp
    · have hmo := lookup_map_other t pos p (fun x => addOp x op o) hp
      rw [hmo]
      have : (pos == p) = false := by simpa using (fun hh : pos = p => hp hh.symm)
      simp [this]
  · rename_i hn
    have hn' : t.any (fun e => e.1 == pos) = false := Bool.eq_false_iff.mpr hn
    rw [lookup_append_table]
    by_cases hp : pos = p
    · subst hp
      rw [lookup_none_of_not_any t pos hn']
      simp only [List.lookup_cons, beq_self_eq_true, Option.getD_some, Bool.true_and]
      rw [opsDepth_cons]
      simp only [List.length_cons, List.length_nil, opsDepth, List.filter_nil, List.map_nil, List.sum_nil, Option.getD_none]
      cases opIsIns op <;> simp
    · have hb : (pos == p) = false := by simpa using hp
      have hb' : (p == pos) = false := by simpa using (fun hh : p = pos => hp hh.symm)
      simp only [hb, Bool.false_and, Bool.false_eq_true, if_false, Nat.add_zero, List.lookup_cons, hb', List.lookup_nil]
      cases t.lookup p <;> rfl

/-- the operation an observation is filed under -/
def filedOp (l : LocusV) (e : Ev) : String :=
  if e.op != "_" && !l.inBounds e.pos && !opIsIns e.op then "_" else e.op

theorem filedOp_isIns (l : LocusV) (e : Ev) : opIsIns (filedOp l e) = opIsIns e.op := by
  unfold filedOp
  split
  · rename_i h
    simp only [Bool.and_eq_true, Bool.not_eq_true'] at h
    rw [h.2]; decide
  · rfl

theorem makeTable_fold (l : LocusV) (evs : List Ev) (t : TableT) (h : TableInv t) (p : Int) :
    TableInv (evs.foldl (fun t e => addObs t e.pos (filedOp l e) e.obs) t) ∧
    tableDepth (evs.foldl (fun t e => addObs t e.pos (filedOp l e) e.obs) t) p = tableDepth t p + depthAt evs p := by
  induction evs generalizing t with
  | nil => exact ⟨h, by simp [depthAt]⟩
  | cons e es ih =>
    simp only [List.foldl_cons]
    have h1 := addObs_inv t e.pos (filedOp l e) e.obs h
    obtain ⟨hi, hd⟩ := ih (addObs t e.pos (filedOp l e) e.obs) h1
    refine ⟨hi, ?_⟩
    rw [hd, addObs_depth t e.pos (filedOp l e) e.obs h p, filedOp_isIns]
    have : depthAt (e :: es) p = (if e.pos == p && !opIsIns e.op then 1 else 0) + depthAt es p := by
      unfold depthAt
      simp only [List.filter_cons]
      split <;> simp <;> omega
    rw [this]; omega

/-- **makeTable_inv** every site of the table `_make_coverage` builds lists each allele once. -/
theorem makeTable_inv (l : LocusV) (evs : List Ev) : TableInv (makeTable l evs) :=
  (makeTable_fold l evs [] (fun _ h => by cases h) 0).1

theorem cast_opsDepth (ops : OpsT) :
    (((ops.filter fun (op, _) => !opIsIns op).map fun (_, q) => (q.length : Rat)).sum) = ((opsDepth ops : Nat) : Rat) := by
  unfold opsDepth
  induction ops with
  | nil => simp
  | cons x xs ih =>
    obtain ⟨op, q⟩ := x
    simp only [List.filter_cons]
    cases opIsIns op
    · simp only [Bool.not_false, if_true, List.map_cons, List.sum_cons, ih]
      push_cast; rfl
    · simpa using ih

/-- **makeTable_totalPos** `Coverage.total(pos)` of the sample's table is the number of
non-insertion observations the reads produced at `pos` - whatever the indel table (`Cov.make`
drops parsed insertions, which `total` does not count anyway). -/
theorem makeTable_totalPos (l : LocusV) (evs : List Ev) (p : Int) :
    (⟨makeTable l evs, []⟩ : Cov).totalPos p = (depthAt evs p : Rat) := by
  unfold Cov.totalPos Cov.ops
  rw [cast_opsDepth]
  have := (makeTable_fold l evs [] (fun _ h => by cases h) p).2
  unfold tableDepth at this
  show ((opsDepth (((makeTable l evs).lookup p).getD []) : Nat) : Rat) = _
  unfold makeTable
  simp only [filedOp] at this
  rw [this]
  simp [opsDepth]

/-- **total_is_spanning_reads** end to end: at a position away from catalogued multi-substitution
sites, `Coverage.total(pos)` of the table built from a read set is the number of reads whose
alignment spans `pos`. -/
theorem total_is_spanning_reads (l : LocusV) (reads : List ReadV) (p : Int)
    (h : ∀ site ∈ l.multiSites, siteTouches site p = false) :
    (⟨makeTable l (reads.flatMap fun r => (parseRead l r).1), []⟩ : Cov).totalPos p =
      ((reads.filter fun r => decide (r.refStart ≤ p ∧ p < r.refStart + refLen r.cigar)).length : Rat) := by
  rw [makeTable_totalPos, depth_total_general l reads p h]

end Aldy
