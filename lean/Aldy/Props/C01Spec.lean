import Aldy.Props.C01
import Aldy.Props.C02Spec

/-!
# C01 at spec level — zero-error evidence makes the planted multiset the documented optimum

Links the two descriptions of the major stage: `Planted I k` (Props/C01: the evidence is the
zero-error evidence of the multiset `k`) and the documented score `specMajor` (Props/C02Spec).

* `planted_admissible`, `planted_spec_zero` : a planted multiset is an admissible decision with
  documented score 0;
* `specMajor_nonneg` : no multiset has a negative documented score;
* `planted_is_least_documented` : hence the planted multiset has the least documented score, and
  (`optimum_spec_zero_of_planted`) every optimum of the ILP selects a multiset of documented score 0
  - `major_optimal_score_is_least_documented` applied to zero-error evidence.
-/

namespace Aldy
open MajorInst

theorem absQ_nonneg (x : Rat) : 0 ≤ absQ x := by rw [absQ_eq_abs]; exact abs_nonneg x

/-- **specMajor_nonneg** -/
theorem specMajor_nonneg (I : MajorInst) (k : String → Nat) (hn : 0 ≤ I.majorNovel) : 0 ≤ I.specMajor k := by
  unfold MajorInst.specMajor
  have h1 : 0 ≤ (I.funcMuts.map fun m => absQ (I.observed m - (I.carriersCount k m + (if carriedB I k m then 0 else 1)))).sum := by
    apply list_sum_nonneg
    intro y hy
    obtain ⟨m, _, rfl⟩ := List.mem_map.mp hy
    exact absQ_nonneg _
  have h2 : 0 ≤ (I.positions.map fun pos => absQ (I.observed (refMut pos) - I.refCount k pos)).sum := by
    apply list_sum_nonneg
    intro y hy
    obtain ⟨m, _, rfl⟩ := List.mem_map.mp hy
    exact absQ_nonneg _
  have h3 : 0 ≤ I.majorNovel * (if (I.novelOf k).isEmpty then 0 else 1) := by
    split_ifs <;> simp [hn]
  have h4 : 0 ≤ Const.MAJOR_NOVEL_EACH * ((I.novelOf k).length : Rat) :=
    mul_nonneg (le_of_lt major_novel_each_pos) (by positivity)
  linarith

theorem planted_carried (I : MajorInst) (k : String → Nat) (hP : Planted I k) (m : Mut) (hm : m ∈ I.funcMuts) :
    carriedB I k m = true := by
  obtain ⟨a, ha, hc, hk⟩ := hP.carried m hm
  unfold MajorInst.carriedB
  exact List.any_eq_true.mpr ⟨a, ha, by rw [hc]; simp [hk]⟩

theorem planted_novel_empty (I : MajorInst) (k : String → Nat) (hP : Planted I k) : I.novelOf k = [] := by
  unfold MajorInst.novelOf
  rw [List.filter_eq_nil_iff]
  intro m hm
  simp [planted_carried I k hP m hm]

/-- **planted_admissible** -/
theorem planted_admissible (I : MajorInst) (k : String → Nat) (hP : Planted I k) : Admissible I k := by
  refine ⟨hP.fits, ?_, ?_⟩
  · intro cc hcc
    exact hP.fills cc hcc
  · intro pos _
    rw [planted_novel_empty I k hP]
    simp

/-- **planted_spec_zero** zero-error evidence gives the planted multiset the documented score 0 -/
theorem planted_spec_zero (I : MajorInst) (k : String → Nat) (hP : Planted I k) : I.specMajor k = 0 := by
  unfold MajorInst.specMajor
  rw [planted_novel_empty I k hP]
  have h1 : (I.funcMuts.map fun m => absQ (I.observed m - (I.carriersCount k m + (if carriedB I k m then 0 else 1)))) =
      I.funcMuts.map fun _ => (0 : Rat) := by
    apply List.map_congr_left
    intro m hm
    rw [planted_carried I k hP m hm, hP.variants m hm]
    simp [MajorInst.carriersCount, plantedSum, absQ]
  have h2 : (I.positions.map fun pos => absQ (I.observed (refMut pos) - I.refCount k pos)) =
      I.positions.map fun _ => (0 : Rat) := by
    apply List.map_congr_left
    intro pos hp
    rw [hP.reference pos hp]
    simp [MajorInst.refCount, plantedSum, absQ]
  have z : ∀ {α : Type} (l : List α), (l.map fun _ => (0 : Rat)).sum = 0 := by
    intro α l; induction l with
    | nil => rfl
    | cons _ _ ih => simp only [List.map_cons, List.sum_cons, ih, add_zero]
  rw [h1, h2, z, z]
  simp

/-- **planted_is_least_documented** -/
theorem planted_is_least_documented (I : MajorInst) (k : String → Nat) (hP : Planted I k) (hn : 0 ≤ I.majorNovel) :
    Admissible I k ∧ ∀ k', I.specMajor k ≤ I.specMajor k' := by
  refine ⟨planted_admissible I k hP, ?_⟩
  intro k'
  rw [planted_spec_zero I k hP]
  exact specMajor_nonneg I k' hn

/-- **optimum_spec_zero_of_planted** with zero-error evidence every optimum of the major ILP selects
an admissible multiset of documented score 0, and its objective is 0 -/
theorem optimum_spec_zero_of_planted (I : MajorInst) (k : String → Nat) (hP : Planted I k) (hn : 0 ≤ I.majorNovel)
    (σ : MVar → Rat) (h : I.build.Sat σ) (hopt : ∀ τ, I.build.Sat τ → I.build.objective σ ≤ I.build.objective τ)
    (hnames : (I.alleles.map (·.name)).Nodup) (hops : ∀ m ∈ I.funcMuts, (m.op == "_") = false) :
    Admissible I (kOf I σ) ∧ I.specMajor (kOf I σ) = 0 ∧ I.build.objective σ = 0 := by
  obtain ⟨hA, hobj, hmin⟩ := major_optimal_score_is_least_documented I σ h hopt hnames hops
  have h0 : I.specMajor (kOf I σ) ≤ 0 := by
    have := hmin k (planted_admissible I k hP)
    rwa [planted_spec_zero I k hP] at this
  have h1 := specMajor_nonneg I (kOf I σ) hn
  have e : I.specMajor (kOf I σ) = 0 := le_antisymm h0 h1
  exact ⟨hA, e, by rw [hobj, e]⟩

end Aldy
