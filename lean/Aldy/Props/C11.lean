import Aldy.Model.Diplotype
import Mathlib.Data.List.Perm.Basic

/-!
# C11 — the diplotype is a faithful arrangement of the called alleles

Proved here (for every input): sorting and flattening never lose, duplicate or invent a
copy (`flatten_perm`, `final_arrangement_perm`), the "non-empty side" repair keeps all items
(`phaseFix_perm`), placeholders are added exactly for missing haplotypes
(`placeholders_exact`), and the end-to-end statement `diplotype_partition`: every phase of the
heuristic (tandem pairing, even split, duplicate and rest balancing) preserves the multiset of
copy indices still to place or placed (`content`), the last phase leaves nothing behind
(`phaseRest_empty`, from the uniqueness of the dictionary keys), hence the reported diplotype
is a permutation of the called copies plus the exact placeholders.
-/

namespace Aldy

theorem insertStable_perm {α : Type} (lt : α → α → Bool) (x : α) (l : List α) :
    (insertStable lt x l).Perm (x :: l) := by
  induction l with
  | nil => simp [insertStable]
  | cons y ys ih =>
    unfold insertStable
    split
    · exact List.Perm.refl _
    · exact (List.Perm.cons y ih).trans (List.Perm.swap x y ys)

/-- the stable sort is a permutation of its input -/
theorem sortStable_perm {α : Type} (lt : α → α → Bool) (l : List α) : (sortStable lt l).Perm l := by
  unfold sortStable
  have : ∀ acc : List α, (l.foldl (fun acc x => insertStable lt x acc) acc).Perm (l.reverse ++ acc) := by
    induction l with
    | nil => intro acc; simp
    | cons x xs ih =>
      intro acc
      simp only [List.foldl_cons, List.reverse_cons, List.append_assoc, List.singleton_append]
      exact (ih _).trans (List.Perm.append_left _ (insertStable_perm lt x acc))
  have h := this []
  simp only [List.append_nil] at h
  exact h.trans (List.reverse_perm l)

/-- **flatten_perm** sorting a haplotype naturally and expanding tandem pairs shows exactly
the copies of its items. -/
theorem flatten_perm (I : DipIn) (d : List Item) : (flatten I d).Perm (d.flatMap Item.flat) := by
  unfold flatten
  exact List.Perm.flatMap_right _ (sortStable_perm _ d)

/-- **final_arrangement_perm** ordering the two haplotypes keeps both. -/
theorem final_arrangement_perm (I : DipIn) (a b : List Int) :
    (sortStable (fun x y => keysLt (x.map fun i => natKey (nameOf I i)) (y.map fun i => natKey (nameOf I i))) [a, b]).Perm [a, b] :=
  sortStable_perm _ _

/-- **phaseFix_perm** moving the last item to the empty side keeps all items. -/
theorem phaseFix_perm (s : DipState) :
    ((phaseFix s).1 ++ (phaseFix s).2).Perm (s.d0 ++ s.d1) := by
  unfold phaseFix
  split
  · rename_i h
    have h1 : s.d1 = [] := by simpa using h
    split
    · rename_i hl
      have hne : s.d0 ≠ [] := by intro h0; rw [h0] at hl; simp at hl
      simp only [h1, List.append_nil]
      have : s.d0.dropLast ++ s.d0.getLast?.toList = s.d0 := by
        rw [List.getLast?_eq_getLast_of_ne_nil hne]
        simpa using List.dropLast_append_getLast hne
      rw [this]
    · exact List.Perm.refl _
  · exact List.Perm.refl _

/-- **phaseFix_nonempty** after the repair the second haplotype is non-empty whenever at
least two items were placed. -/
theorem phaseFix_nonempty (s : DipState) (h : s.d0.length + s.d1.length ≥ 2) :
    (phaseFix s).1 ≠ [] ∧ (phaseFix s).2 ≠ [] ∨ (s.d1 ≠ [] ∧ s.d0 = []) := by
  unfold phaseFix
  by_cases h1 : s.d1.isEmpty = true
  · have h1' : s.d1 = [] := by simpa using h1
    simp only [h1, if_true]
    have hl : s.d0.length > 1 := by rw [h1'] at h; simp at h; omega
    simp only [hl, if_true]
    left
    constructor
    · intro h0
      have := congrArg List.length h0
      simp at this
      omega
    · have hne : s.d0 ≠ [] := by intro h0; rw [h0] at hl; simp at hl
      rw [List.getLast?_eq_getLast_of_ne_nil hne]; simp
  · have h1' : s.d1 ≠ [] := by simpa using h1
    simp only [h1, Bool.false_eq_true, if_false]
    by_cases h0 : s.d0 = []
    · right; exact ⟨h1', h0⟩
    · left; exact ⟨h0, h1'⟩

/-! ### dictionary operations keep the stored copy indices -/

def dictFlat (d : Dict) : List Int := d.flatMap (·.2)

theorem dictAppend_flat (d : Dict) (k : String) (v : Int) :
    (dictFlat (dictAppend d k v)).Perm (dictFlat d ++ [v]) := by
  induction d with
  | nil => simp [dictAppend, dictFlat]
  | cons e es ih =>
    unfold dictAppend
    split
    · simp only [dictFlat, List.flatMap_cons]
      rw [List.append_assoc, List.append_assoc]
      exact List.Perm.append_left _ List.perm_append_comm
    · simp only [dictFlat, List.flatMap_cons, List.append_assoc]
      exact List.Perm.append_left _ ih

theorem dictTouch_flat (d : Dict) (k : String) : dictFlat (dictTouch d k) = dictFlat d := by
  induction d with
  | nil => simp [dictTouch, dictFlat]
  | cons e es ih =>
    unfold dictTouch
    split
    · rfl
    · simp only [dictFlat, List.flatMap_cons] at ih ⊢; rw [ih]

def hasKey (d : Dict) (k : String) : Bool := d.any fun e => e.1 == k

theorem dictSet_flat (d : Dict) (k : String) (v : List Int) (h : hasKey d k = true) :
    (dictFlat (dictSet d k v) ++ dictGet d k).Perm (dictFlat d ++ v) := by
  induction d with
  | nil => simp [hasKey] at h
  | cons e es ih =>
    unfold dictSet dictGet
    by_cases he : (e.1 == k) = true
    · simp only [he, if_true, dictFlat, List.flatMap_cons]
      -- v ++ rest ++ e.2  ~  e.2 ++ rest ++ v
      have : (v ++ List.flatMap (fun x => x.2) es ++ e.2).Perm (e.2 ++ List.flatMap (fun x => x.2) es ++ v) := by
        rw [List.perm_iff_count]
        intro a
        simp only [List.count_append]
        omega
      exact this
    · have he' : (e.1 == k) = false := by simpa using he
      have hk : hasKey es k = true := by
        simp only [hasKey, List.any_cons, he', Bool.false_or] at h
        exact h
      simp only [he', Bool.false_eq_true, if_false, dictFlat, List.flatMap_cons, List.append_assoc]
      exact List.Perm.append_left _ (ih hk)

/-- **placeholders_exact** the grouped copies are exactly the indices `0..n-1`, plus two
deletion placeholders when nothing is called and one when a single copy is called - only
for a gene that has a whole-gene deletion allele. -/
theorem placeholders_exact (I : DipIn) :
    (dictFlat (phaseGroup I)).Perm
      ((List.range I.majors.length).map Int.ofNat ++
        (match I.delAllele with
         | some _ => List.replicate (2 - I.majors.length) (-1)
         | none => [])) := by
  have hfold : ∀ (l : List (String × Nat)) (acc : Dict),
      (dictFlat (l.foldl (fun acc mi => dictAppend acc (realKey mi.1) (mi.2 : Int)) acc)).Perm
        (dictFlat acc ++ l.map fun mi => (mi.2 : Int)) := by
    intro l
    induction l with
    | nil => intro acc; simp
    | cons x xs ih =>
      intro acc
      simp only [List.foldl_cons, List.map_cons]
      refine (ih _).trans ?_
      have := dictAppend_flat acc (realKey x.1) (x.2 : Int)
      exact (List.Perm.append_right _ this).trans (by simp)
  have hbase : (dictFlat ((I.majors.zipIdx).foldl (fun acc mi => dictAppend acc (realKey mi.1) (mi.2 : Int)) [])).Perm
      ((List.range I.majors.length).map Int.ofNat) := by
    refine (hfold _ []).trans ?_
    simp only [dictFlat, List.flatMap_nil, List.nil_append]
    have : (I.majors.zipIdx).map (fun mi => (mi.2 : Int)) = (List.range I.majors.length).map Int.ofNat := by
      have h2 : (I.majors.zipIdx).map (fun mi => (mi.2 : Int)) = ((I.majors.zipIdx).map (·.2)).map Int.ofNat := by
        rw [List.map_map]; rfl
      rw [h2, List.zipIdx_map_snd, List.range_eq_range']
    rw [this]
  unfold phaseGroup
  cases hdel : I.delAllele with
  | none => simpa using hbase
  | some del =>
    simp only
    by_cases h0 : I.majors.length = 0
    · simp only [h0, beq_self_eq_true, if_true]
      refine (dictAppend_flat _ _ _).trans ?_
      refine (List.Perm.append_right _ (dictAppend_flat _ _ _)).trans ?_
      refine (List.Perm.append_right _ (List.Perm.append_right _ hbase)).trans ?_
      simp [h0, List.replicate]
    · by_cases h1 : I.majors.length = 1
      · have : (I.majors.length == 0) = false := by simp [h0]
        simp only [this, Bool.false_eq_true, if_false, h1, beq_self_eq_true, if_true]
        refine (dictAppend_flat _ _ _).trans ?_
        refine (List.Perm.append_right _ hbase).trans ?_
        simp [h1, List.replicate]
      · have e0 : (I.majors.length == 0) = false := by simp [h0]
        have e1 : (I.majors.length == 1) = false := by simp [h1]
        simp only [e0, e1, Bool.false_eq_true, if_false]
        have : 2 - I.majors.length = 0 := by omega
        simpa [this] using hbase

/-! ### every phase keeps the copies: the end-to-end statement -/

def itemsFlat (l : List Item) : List Int := l.flatMap Item.flat

/-- every copy index the arrangement still has to place or has placed -/
def content (s : DipState) : List Int := dictFlat s.dict ++ (itemsFlat s.d0 ++ itemsFlat s.d1)

theorem itemsFlat_append (a b : List Item) : itemsFlat (a ++ b) = itemsFlat a ++ itemsFlat b := by
  simp [itemsFlat]

theorem itemsFlat_ones (l : List Int) : itemsFlat (l.map Item.one) = l := by
  induction l with
  | nil => rfl
  | cons x xs ih => simp only [itemsFlat, List.map_cons, List.flatMap_cons, Item.flat] at ih ⊢; rw [ih]; rfl

theorem addTo_dict (s : DipState) (k : Nat) (items : List Item) : (s.addTo k items).dict = s.dict := by
  unfold DipState.addTo; split <;> rfl

theorem addTo_sides (s : DipState) (k : Nat) (items : List Item) :
    (itemsFlat (s.addTo k items).d0 ++ itemsFlat (s.addTo k items).d1).Perm
      (itemsFlat s.d0 ++ itemsFlat s.d1 ++ itemsFlat items) := by
  unfold DipState.addTo
  split
  · simp only [itemsFlat_append]
    rw [List.perm_iff_count]; intro a; simp only [List.count_append]; omega
  · simp only [itemsFlat_append]
    rw [List.perm_iff_count]; intro a; simp only [List.count_append]; omega

theorem dictGet_ne_nil_hasKey (d : Dict) (k : String) (h : dictGet d k ≠ []) : hasKey d k = true := by
  induction d with
  | nil => simp [dictGet] at h
  | cons e es ih =>
    unfold dictGet at h
    by_cases he : (e.1 == k) = true
    · simp [hasKey, he]
    · have he' : (e.1 == k) = false := by simpa using he
      simp only [he', Bool.false_eq_true, if_false] at h
      simp only [hasKey, List.any_cons, he', Bool.false_or]
      exact ih h

/-- moving all copies stored under one key to a side keeps the content -/
theorem move_key_content (st : DipState) (key : String) (k dc' : Nat) (hne : dictGet st.dict key ≠ []) :
    (content { (st.addTo k ((dictGet st.dict key).map Item.one)) with
                 dc := dc', dict := dictSet (st.addTo k ((dictGet st.dict key).map Item.one)).dict key [] }).Perm (content st) := by
  have hk := dictGet_ne_nil_hasKey st.dict key hne
  have h1 := dictSet_flat st.dict key [] hk
  have h2 := addTo_sides st k ((dictGet st.dict key).map Item.one)
  rw [itemsFlat_ones] at h2
  simp only [content, addTo_dict]
  simp only [List.append_nil] at h1
  rw [List.perm_iff_count] at h1 h2 ⊢
  intro a
  have := h1 a; have := h2 a
  simp only [List.count_append] at *
  omega


theorem foldl_content {α : Type} (f : DipState → α → DipState) (h : ∀ st e, (content (f st e)).Perm (content st))
    (es : List α) (s : DipState) : (content (es.foldl f s)).Perm (content s) := by
  induction es generalizing s with
  | nil => exact List.Perm.refl _
  | cons e es ih => exact (ih (f s e)).trans (h s e)

theorem phaseDup_content (s : DipState) : (content (phaseDup s)).Perm (content s) := by
  unfold phaseDup
  apply foldl_content
  intro st e
  dsimp only
  split
  · rename_i hlen
    apply move_key_content
    intro h0; rw [h0] at hlen; simp at hlen
  · exact List.Perm.refl _

theorem phaseRest_content (s : DipState) : (content (phaseRest s)).Perm (content s) := by
  unfold phaseRest
  apply foldl_content
  intro st e
  dsimp only
  split
  · rename_i hne
    apply move_key_content
    intro h0; rw [h0] at hne; simp at hne
  · exact List.Perm.refl _

theorem phaseEven_content (s : DipState) : (content (phaseEven s)).Perm (content s) := by
  unfold phaseEven
  split
  · rename_i k items hd
    split
    · have h1 := addTo_sides s s.dc ((items.take (items.length / 2)).map Item.one)
      have h2 := addTo_sides (s.addTo s.dc ((items.take (items.length / 2)).map Item.one)) (s.dc + 1)
        ((items.drop (items.length / 2)).map Item.one)
      rw [itemsFlat_ones] at h1 h2
      have h3 : (items.take (items.length / 2) ++ items.drop (items.length / 2)) = items := List.take_append_drop _ _
      simp only [content, hd, dictFlat, List.flatMap_cons, List.flatMap_nil, List.append_nil, List.nil_append]
      rw [List.perm_iff_count] at h1 h2 ⊢
      intro a
      have := h1 a; have := h2 a
      have h4 : List.count a items = List.count a (items.take (items.length / 2)) + List.count a (items.drop (items.length / 2)) := by
        conv_lhs => rw [← h3]
        rw [List.count_append]
      simp only [List.count_append] at *
      omega
    · exact List.Perm.refl _
  · exact List.Perm.refl _


theorem hasKey_dictSet (d : Dict) (k k' : String) (v : List Int) : hasKey (dictSet d k v) k' = hasKey d k' := by
  induction d with
  | nil => rfl
  | cons e es ih =>
    unfold dictSet
    split
    · simp [hasKey]
    · simp only [hasKey, List.any_cons] at ih ⊢; rw [ih]

theorem dictGet_dictSet_ne (d : Dict) (k k' : String) (v : List Int) (h : k ≠ k') :
    dictGet (dictSet d k v) k' = dictGet d k' := by
  induction d with
  | nil => rfl
  | cons e es ih =>
    unfold dictSet
    by_cases he : (e.1 == k) = true
    · have hek : e.1 = k := by simpa using he
      have : (e.1 == k') = false := by rw [hek]; simpa using h
      simp only [he, if_true, dictGet, this, Bool.false_eq_true, if_false]
    · have he' : (e.1 == k) = false := by simpa using he
      simp only [he', Bool.false_eq_true, if_false, dictGet, ih]

theorem tandemLoop_content (ta tb : String) (hne : ta ≠ tb) (fuel : Nat) (s : DipState) :
    (content (tandemLoop ta tb fuel s)).Perm (content s) := by
  induction fuel generalizing s with
  | zero => exact List.Perm.refl _
  | succ fuel ih =>
    unfold tandemLoop
    simp only
    split
    · simp only [content, dictTouch_flat]
      exact List.Perm.refl _
    · split
      · rename_i a as b bs hga hgb
        refine (ih _).trans ?_
        have hka : hasKey (dictTouch (dictTouch s.dict ta) tb) ta = true :=
          dictGet_ne_nil_hasKey _ _ (by rw [hga]; simp)
        have hkb : hasKey (dictTouch (dictTouch s.dict ta) tb) tb = true :=
          dictGet_ne_nil_hasKey _ _ (by rw [hgb]; simp)
        have h1 := dictSet_flat (dictTouch (dictTouch s.dict ta) tb) ta as hka
        have h2 := dictSet_flat (dictSet (dictTouch (dictTouch s.dict ta) tb) ta as) tb bs (by rw [hasKey_dictSet]; exact hkb)
        rw [dictGet_dictSet_ne _ _ _ _ hne, hgb] at h2
        rw [hga] at h1
        have h3 := addTo_sides { s with dict := dictSet (dictSet (dictTouch (dictTouch s.dict ta) tb) ta as) tb bs } s.dc [Item.pair a b]
        have hflat : dictFlat (dictTouch (dictTouch s.dict ta) tb) = dictFlat s.dict := by
          rw [dictTouch_flat, dictTouch_flat]
        simp only [content, addTo_dict]
        rw [← hflat]
        rw [List.perm_iff_count] at h1 h2 h3 ⊢
        intro x
        have := h1 x; have := h2 x; have := h3 x
        simp only [List.count_append, List.count_cons, itemsFlat, List.flatMap_cons, List.flatMap_nil, Item.flat,
          List.append_nil, List.count_nil] at *
        omega
      · simp only [content, dictTouch_flat]
        exact List.Perm.refl _

theorem phaseTandem_content (I : DipIn) (hne : ∀ t ∈ I.tandems, t.1 ≠ t.2) (s : DipState) :
    (content (phaseTandem I s)).Perm (content s) := by
  unfold phaseTandem
  split
  · have : ∀ (ts : List (String × String)), (∀ t ∈ ts, t.1 ≠ t.2) → ∀ s : DipState,
        (content (ts.foldl (fun st t => tandemLoop t.1 t.2 (I.majors.length + 2) st) s)).Perm (content s) := by
      intro ts
      induction ts with
      | nil => intro _ s; exact List.Perm.refl _
      | cons t ts ih =>
        intro h s
        simp only [List.foldl_cons]
        exact (ih (fun x hx => h x (by simp [hx])) _).trans (tandemLoop_content t.1 t.2 (h t (by simp)) _ s)
    exact this I.tandems hne s
  · exact List.Perm.refl _


def dkeys (d : Dict) : List String := d.map (·.1)

theorem dkeys_dictSet (d : Dict) (k : String) (v : List Int) : dkeys (dictSet d k v) = dkeys d := by
  induction d with
  | nil => rfl
  | cons e es ih =>
    unfold dictSet
    split
    · rfl
    · simp only [dkeys, List.map_cons] at ih ⊢; rw [ih]

theorem dictGet_dictSet_same (d : Dict) (k : String) (v : List Int) (h : hasKey d k = true) :
    dictGet (dictSet d k v) k = v := by
  induction d with
  | nil => simp [hasKey] at h
  | cons e es ih =>
    unfold dictSet
    by_cases he : (e.1 == k) = true
    · simp only [he, if_true, dictGet]
    · have he' : (e.1 == k) = false := by simpa using he
      simp only [hasKey, List.any_cons, he', Bool.false_or] at h
      simp only [he', Bool.false_eq_true, if_false, dictGet]
      exact ih h

theorem dictGet_of_not_hasKey (d : Dict) (k : String) (h : hasKey d k = false) : dictGet d k = [] := by
  induction d with
  | nil => rfl
  | cons e es ih =>
    simp only [hasKey, List.any_cons, Bool.or_eq_false_iff] at h
    simp only [dictGet, h.1, Bool.false_eq_true, if_false]
    exact ih h.2

/-- setting a key to the empty list leaves no copies under that key and touches no other key -/
theorem dictGet_after_clear (d : Dict) (k k' : String) :
    dictGet (dictSet d k []) k' = if k = k' then [] else dictGet d k' := by
  by_cases h : k = k'
  · subst h
    simp only [if_true]
    by_cases hk : hasKey d k = true
    · exact dictGet_dictSet_same d k [] hk
    · have hk' : hasKey d k = false := by simpa using hk
      have : hasKey (dictSet d k []) k = false := by rw [hasKey_dictSet]; exact hk'
      exact dictGet_of_not_hasKey _ _ this
  · simp only [h, if_false]
    exact dictGet_dictSet_ne d k k' [] h

/-- the step of `phaseRest` (and of `phaseDup`, with another guard) -/
def clearStep (guard : List Int → Bool) (st : DipState) (e : String × List Int) : DipState :=
  let items := dictGet st.dict e.1
  if guard items then
    let k := balance st
    let st' := st.addTo k (items.map Item.one)
    { st' with dc := k + 1, dict := dictSet st'.dict e.1 [] }
  else st

theorem clearStep_get (guard : List Int → Bool) (st : DipState) (e : String × List Int) (k : String) :
    dictGet (clearStep guard st e).dict k = if guard (dictGet st.dict e.1) ∧ e.1 = k then [] else dictGet st.dict k := by
  unfold clearStep
  dsimp only
  by_cases hg : guard (dictGet st.dict e.1) = true
  · simp only [hg, if_true, addTo_dict, true_and]
    exact dictGet_after_clear _ _ _
  · simp only [hg, Bool.false_eq_true, if_false, false_and]

theorem clearStep_keys (guard : List Int → Bool) (st : DipState) (e : String × List Int) :
    dkeys (clearStep guard st e).dict = dkeys st.dict := by
  unfold clearStep
  dsimp only
  split
  · simp only [addTo_dict, dkeys_dictSet]
  · rfl

theorem phaseRest_eq (s : DipState) : phaseRest s = s.dict.foldl (clearStep fun items => !items.isEmpty) s := rfl

/-- after the last phase nothing is left under any key of the dictionary -/
theorem phaseRest_clears (s : DipState) (k : String) (hk : k ∈ dkeys s.dict) :
    dictGet (phaseRest s).dict k = [] := by
  rw [phaseRest_eq]
  have key : ∀ (es : List (String × List Int)) (st : DipState),
      (k ∈ es.map (·.1) ∨ dictGet st.dict k = []) →
      dictGet (es.foldl (clearStep fun items => !items.isEmpty) st).dict k = [] := by
    intro es
    induction es with
    | nil =>
      intro st h
      rcases h with h | h
      · simp at h
      · exact h
    | cons e es ih =>
      intro st h
      simp only [List.foldl_cons]
      apply ih
      by_cases hin : k ∈ es.map (·.1)
      · exact Or.inl hin
      · right
        rw [clearStep_get]
        rcases h with h | h
        · simp only [List.map_cons, List.mem_cons] at h
          rcases h with h | h
          · subst h
            by_cases hg : (!(dictGet st.dict e.1).isEmpty) = true
            · simp [hg]
            · have : dictGet st.dict e.1 = [] := by simpa using hg
              simp [this]
          · exact absurd h hin
        · split
          · rfl
          · exact h
  exact key s.dict s (Or.inl hk)

theorem phaseRest_keys (s : DipState) : dkeys (phaseRest s).dict = dkeys s.dict := by
  rw [phaseRest_eq]
  have : ∀ (es : List (String × List Int)) (st : DipState),
      dkeys (es.foldl (clearStep fun items => !items.isEmpty) st).dict = dkeys st.dict := by
    intro es
    induction es with
    | nil => intro st; rfl
    | cons e es ih => intro st; simp only [List.foldl_cons]; rw [ih, clearStep_keys]
  exact this s.dict s

theorem dictGet_first (d : Dict) (h : (dkeys d).Nodup) (e : String × List Int) (he : e ∈ d) : dictGet d e.1 = e.2 := by
  induction d with
  | nil => cases he
  | cons x xs ih =>
    simp only [dkeys, List.map_cons, List.nodup_cons] at h
    rcases List.mem_cons.mp he with rfl | he
    · simp [dictGet]
    · have hne : (x.1 == e.1) = false := by
        have : x.1 ≠ e.1 := by
          intro hx
          exact h.1 (hx ▸ List.mem_map.mpr ⟨e, he, rfl⟩)
        simpa using this
      simp only [dictGet, hne, Bool.false_eq_true, if_false]
      exact ih h.2 he

theorem phaseRest_empty (s : DipState) (h : (dkeys s.dict).Nodup) : dictFlat (phaseRest s).dict = [] := by
  have hk := phaseRest_keys s
  have hnd : (dkeys (phaseRest s).dict).Nodup := by rw [hk]; exact h
  simp only [dictFlat, List.flatMap_eq_nil_iff]
  intro e he
  have h1 := dictGet_first _ hnd e he
  have h2 := phaseRest_clears s e.1 (by rw [← hk]; exact List.mem_map.mpr ⟨e, he, rfl⟩)
  rw [← h1, h2]


theorem dkeys_dictAppend (d : Dict) (k : String) (v : Int) :
    dkeys (dictAppend d k v) = if hasKey d k then dkeys d else dkeys d ++ [k] := by
  induction d with
  | nil => simp [dictAppend, dkeys, hasKey]
  | cons e es ih =>
    unfold dictAppend
    by_cases he : (e.1 == k) = true
    · simp [he, dkeys, hasKey]
    · have he' : (e.1 == k) = false := by simpa using he
      simp only [he', Bool.false_eq_true, if_false, dkeys, List.map_cons, hasKey, List.any_cons, Bool.false_or] at ih ⊢
      rw [ih]
      split <;> rename_i h <;> simp [h]

theorem dkeys_dictTouch (d : Dict) (k : String) :
    dkeys (dictTouch d k) = if hasKey d k then dkeys d else dkeys d ++ [k] := by
  induction d with
  | nil => simp [dictTouch, dkeys, hasKey]
  | cons e es ih =>
    unfold dictTouch
    by_cases he : (e.1 == k) = true
    · simp [he, dkeys, hasKey]
    · have he' : (e.1 == k) = false := by simpa using he
      simp only [he', Bool.false_eq_true, if_false, dkeys, List.map_cons, hasKey, List.any_cons, Bool.false_or] at ih ⊢
      rw [ih]
      split <;> rename_i h <;> simp [h]

theorem hasKey_iff_mem (d : Dict) (k : String) : hasKey d k = true ↔ k ∈ dkeys d := by
  simp only [hasKey, dkeys, List.any_eq_true, List.mem_map, beq_iff_eq]

theorem nodup_add_key (d : Dict) (k : String) (h : (dkeys d).Nodup) :
    (if hasKey d k then dkeys d else dkeys d ++ [k]).Nodup := by
  by_cases hk : hasKey d k = true
  · simp [hk, h]
  · have hk' : hasKey d k = false := by simpa using hk
    simp only [hk', Bool.false_eq_true, if_false]
    have : k ∉ dkeys d := by rw [← hasKey_iff_mem]; simp [hk']
    rw [List.nodup_append]
    refine ⟨h, by simp, ?_⟩
    intro a ha b hb
    simp only [List.mem_singleton] at hb
    subst hb
    intro hab
    exact this (hab ▸ ha)

theorem nodup_dictAppend (d : Dict) (k : String) (v : Int) (h : (dkeys d).Nodup) : (dkeys (dictAppend d k v)).Nodup := by
  rw [dkeys_dictAppend]; exact nodup_add_key d k h

theorem nodup_dictTouch (d : Dict) (k : String) (h : (dkeys d).Nodup) : (dkeys (dictTouch d k)).Nodup := by
  rw [dkeys_dictTouch]; exact nodup_add_key d k h

theorem phaseGroup_nodup (I : DipIn) : (dkeys (phaseGroup I)).Nodup := by
  have hfold : ∀ (l : List (String × Nat)) (acc : Dict), (dkeys acc).Nodup →
      (dkeys (l.foldl (fun acc mi => dictAppend acc (realKey mi.1) (mi.2 : Int)) acc)).Nodup := by
    intro l
    induction l with
    | nil => intro acc h; exact h
    | cons x xs ih => intro acc h; exact ih _ (nodup_dictAppend _ _ _ h)
  have hbase := hfold I.majors.zipIdx [] (by simp [dkeys])
  unfold phaseGroup
  dsimp only
  split
  · split
    · exact nodup_dictAppend _ _ _ (nodup_dictAppend _ _ _ hbase)
    · split
      · exact nodup_dictAppend _ _ _ hbase
      · exact hbase
  · exact hbase

theorem tandemLoop_nodup (ta tb : String) (fuel : Nat) (s : DipState) (h : (dkeys s.dict).Nodup) :
    (dkeys (tandemLoop ta tb fuel s).dict).Nodup := by
  induction fuel generalizing s with
  | zero => exact h
  | succ fuel ih =>
    unfold tandemLoop
    simp only
    split
    · exact nodup_dictTouch _ _ h
    · split
      · apply ih
        simp only [addTo_dict, dkeys_dictSet]
        exact nodup_dictTouch _ _ (nodup_dictTouch _ _ h)
      · exact nodup_dictTouch _ _ (nodup_dictTouch _ _ h)

theorem phaseTandem_nodup (I : DipIn) (s : DipState) (h : (dkeys s.dict).Nodup) : (dkeys (phaseTandem I s).dict).Nodup := by
  unfold phaseTandem
  split
  · have : ∀ (ts : List (String × String)) (s : DipState), (dkeys s.dict).Nodup →
        (dkeys (ts.foldl (fun st t => tandemLoop t.1 t.2 (I.majors.length + 2) st) s).dict).Nodup := by
      intro ts
      induction ts with
      | nil => intro s h; exact h
      | cons t ts ih => intro s h; simp only [List.foldl_cons]; exact ih _ (tandemLoop_nodup _ _ _ _ h)
    exact this _ _ h
  · exact h

theorem phaseEven_nodup (s : DipState) (h : (dkeys s.dict).Nodup) : (dkeys (phaseEven s).dict).Nodup := by
  unfold phaseEven
  split
  · split
    · simp [dkeys]
    · exact h
  · exact h

theorem phaseDup_nodup (s : DipState) (h : (dkeys s.dict).Nodup) : (dkeys (phaseDup s).dict).Nodup := by
  unfold phaseDup
  have : ∀ (es : List (String × List Int)) (st : DipState),
      dkeys (es.foldl (fun st e =>
        let items := dictGet st.dict e.1
        if items.length > 1 then
          let k := balance st
          let st' := st.addTo k (items.map Item.one)
          { st' with dc := k + 1, dict := dictSet st'.dict e.1 [] }
        else st) st).dict = dkeys st.dict := by
    intro es
    induction es with
    | nil => intro st; rfl
    | cons e es ih =>
      intro st
      simp only [List.foldl_cons]
      rw [ih]
      split
      · simp only [addTo_dict, dkeys_dictSet]
      · rfl
  rw [this]; exact h

/-- **diplotype_partition** the reported diplotype shows exactly the called copies `0..n-1`, plus
deletion placeholders for missing haplotypes (two when nothing is called, one when a single
copy is called, for genes with a whole-gene deletion allele): through grouping, tandem pairing,
even split, duplicate and rest balancing, the non-empty repair, flattening and the final order
no copy is lost, duplicated or invented.  Hypothesis: a catalogued tandem names two different
allele numbers (for `(x, x)` the code itself deletes two entries per pair or raises). -/
theorem diplotype_partition (I : DipIn) (hne : ∀ t ∈ I.tandems, t.1 ≠ t.2) :
    ((estimateDiplotype I).flatten).Perm
      ((List.range I.majors.length).map Int.ofNat ++
        (match I.delAllele with
         | some _ => List.replicate (2 - I.majors.length) (-1)
         | none => [])) := by
  refine List.Perm.trans ?_ (placeholders_exact I)
  set s0 : DipState := { dict := phaseGroup I, d0 := [], d1 := [], dc := 0 } with hs0
  set s := phaseRest (phaseDup (phaseEven (phaseTandem I s0))) with hs
  have hnd : (dkeys (phaseDup (phaseEven (phaseTandem I s0))).dict).Nodup :=
    phaseDup_nodup _ (phaseEven_nodup _ (phaseTandem_nodup I s0 (phaseGroup_nodup I)))
  have hempty : dictFlat s.dict = [] := phaseRest_empty _ hnd
  have hcontent : (content s).Perm (content s0) :=
    (phaseRest_content _).trans ((phaseDup_content _).trans ((phaseEven_content _).trans (phaseTandem_content I hne s0)))
  have hc0 : content s0 = dictFlat (phaseGroup I) := by simp [content, hs0, itemsFlat]
  have hcs : content s = itemsFlat (s.d0 ++ s.d1) := by simp [content, hempty, itemsFlat_append]
  rw [hc0, hcs] at hcontent
  refine List.Perm.trans ?_ hcontent
  -- the output
  have hout : estimateDiplotype I =
      sortStable (fun x y => keysLt (x.map fun i => natKey (nameOf I i)) (y.map fun i => natKey (nameOf I i)))
        [flatten I (phaseFix s).1, flatten I (phaseFix s).2] := rfl
  rw [hout]
  refine ((final_arrangement_perm I _ _).flatten).trans ?_
  simp only [List.flatten_cons, List.flatten_nil, List.append_nil]
  refine (List.Perm.append (flatten_perm I _) (flatten_perm I _)).trans ?_
  have := phaseFix_perm s
  have h2 : (itemsFlat ((phaseFix s).1 ++ (phaseFix s).2)).Perm (itemsFlat (s.d0 ++ s.d1)) :=
    List.Perm.flatMap_right _ this
  rw [itemsFlat_append] at h2
  exact h2


/-! ### Non-vacuity / concrete behaviour (kernel-evaluated) -/

example : estimateDiplotype { majors := ["1", "2"], names := ["1", "2"], delAllele := some "5", tandems := [] } = [[0], [1]] := by
  decide +kernel
example : estimateDiplotype { majors := ["2", "1"], names := ["2", "1"], delAllele := some "5", tandems := [] } = [[1], [0]] := by
  decide +kernel
example : estimateDiplotype { majors := ["13", "1", "2"], names := ["13", "1", "2"], delAllele := none, tandems := [("13", "1")] }
    = [[2], [0, 1]] := by decide +kernel
example : estimateDiplotype { majors := [], names := [], delAllele := some "5", tandems := [] } = [[-1], [-1]] := by
  decide +kernel
/-- the hypothesis of `diplotype_partition` holds for a catalogue with tandems, and the theorem applies -/
example : ((estimateDiplotype { majors := ["13", "1", "2"], names := ["13", "1", "2"], delAllele := none, tandems := [("13", "1")] }).flatten).Perm
    [0, 1, 2] := by
  have := diplotype_partition { majors := ["13", "1", "2"], names := ["13", "1", "2"], delAllele := none, tandems := [("13", "1")] } (by decide)
  have e : (List.range 3).map Int.ofNat = [0, 1, 2] := by decide
  simpa [e] using this
example : natKey "4+rs123" = [.text [], .num 4, .text ['+', 'r', 's'], .num 123] := by decide +kernel

end Aldy

