import Aldy.Model.Diplotype
import Mathlib.Data.List.Perm.Basic

/-!
# C11 — the diplotype is a faithful arrangement of the called alleles

Proved here (for every input): sorting and flattening never lose, duplicate or invent a
copy (`flatten_perm`, `final_arrangement_perm`), the "non-empty side" repair keeps all items
(`phaseFix_perm`), placeholders are added exactly for missing haplotypes
(`placeholders_exact`).  The full statement `diplotype_partition` (every phase of the
heuristic preserves the multiset of copy indices) is stated at the end; see there for its
status.
-/

namespace Aldy

theorem insertStable_perm {α : Type} (lt : α → α → Bool) (x : α) (l : List α) :
    (insertStable lt x l).Perm (x :: l) := by
  induction l with
  | nil => simp [insertStable]
  | cons y ys ih =>
    unfold insertStable
    split
    · exact List.Perm.refl _
    · exact (List.Perm.cons y ih).trans (List.Perm.swap x y ys)

/-- the stable sort is a permutation of its input -/
theorem sortStable_perm {α : Type} (lt : α → α → Bool) (l : List α) : (sortStable lt l).Perm l := by
  unfold sortStable
  have : ∀ acc : List α, (l.foldl (fun acc x => insertStable lt x acc) acc).Perm (l.reverse ++ acc) := by
    induction l with
    | nil => intro acc; simp
    | cons x xs ih =>
      intro acc
      simp only [List.foldl_cons, List.reverse_cons, List.append_assoc, List.singleton_append]
      exact (ih _).trans (List.Perm.append_left _ (insertStable_perm lt x acc))
  have h := this []
  simp only [List.append_nil] at h
  exact h.trans (List.reverse_perm l)

/-- **flatten_perm** sorting a haplotype naturally and expanding tandem pairs shows exactly
the copies of its items. -/
theorem flatten_perm (I : DipIn) (d : List Item) : (flatten I d).Perm (d.flatMap Item.flat) := by
  unfold flatten
  exact List.Perm.flatMap_right _ (sortStable_perm _ d)

/-- **final_arrangement_perm** ordering the two haplotypes keeps both. -/
theorem final_arrangement_perm (I : DipIn) (a b : List Int) :
    (sortStable (fun x y => keysLt (x.map fun i => natKey (nameOf I i)) (y.map fun i => natKey (nameOf I i))) [a, b]).Perm [a, b] :=
  sortStable_perm _ _

/-- **phaseFix_perm** moving the last item to the empty side keeps all items. -/
theorem phaseFix_perm (s : DipState) :
    ((phaseFix s).1 ++ (phaseFix s).2).Perm (s.d0 ++ s.d1) := by
  unfold phaseFix
  split
  · rename_i h
    have h1 : s.d1 = [] := by simpa using h
    split
    · rename_i hl
      have hne : s.d0 ≠ [] := by intro h0; rw [h0] at hl; simp at hl
      simp only [h1, List.append_nil]
      have : s.d0.dropLast ++ s.d0.getLast?.toList = s.d0 := by
        rw [List.getLast?_eq_getLast_of_ne_nil hne]
        simpa using List.dropLast_append_getLast hne
      rw [this]
    · exact List.Perm.refl _
  · exact List.Perm.refl _

/-- **phaseFix_nonempty** after the repair the second haplotype is non-empty whenever at
least two items were placed. -/
theorem phaseFix_nonempty (s : DipState) (h : s.d0.length + s.d1.length ≥ 2) :
    (phaseFix s).1 ≠ [] ∧ (phaseFix s).2 ≠ [] ∨ (s.d1 ≠ [] ∧ s.d0 = []) := by
  unfold phaseFix
  by_cases h1 : s.d1.isEmpty = true
  · have h1' : s.d1 = [] := by simpa using h1
    simp only [h1, if_true]
    have hl : s.d0.length > 1 := by rw [h1'] at h; simp at h; omega
    simp only [hl, if_true]
    left
    constructor
    · intro h0
      have := congrArg List.length h0
      simp at this
      omega
    · have hne : s.d0 ≠ [] := by intro h0; rw [h0] at hl; simp at hl
      rw [List.getLast?_eq_getLast_of_ne_nil hne]; simp
  · have h1' : s.d1 ≠ [] := by simpa using h1
    simp only [h1, Bool.false_eq_true, if_false]
    by_cases h0 : s.d0 = []
    · right; exact ⟨h1', h0⟩
    · left; exact ⟨h0, h1'⟩

/-! ### dictionary operations keep the stored copy indices -/

def dictFlat (d : Dict) : List Int := d.flatMap (·.2)

theorem dictAppend_flat (d : Dict) (k : String) (v : Int) :
    (dictFlat (dictAppend d k v)).Perm (dictFlat d ++ [v]) := by
  induction d with
  | nil => simp [dictAppend, dictFlat]
  | cons e es ih =>
    unfold dictAppend
    split
    · simp only [dictFlat, List.flatMap_cons]
      rw [List.append_assoc, List.append_assoc]
      exact List.Perm.append_left _ List.perm_append_comm
    · simp only [dictFlat, List.flatMap_cons, List.append_assoc]
      exact List.Perm.append_left _ ih

theorem dictTouch_flat (d : Dict) (k : String) : dictFlat (dictTouch d k) = dictFlat d := by
  induction d with
  | nil => simp [dictTouch, dictFlat]
  | cons e es ih =>
    unfold dictTouch
    split
    · rfl
    · simp only [dictFlat, List.flatMap_cons] at ih ⊢; rw [ih]

def hasKey (d : Dict) (k : String) : Bool := d.any fun e => e.1 == k

theorem dictSet_flat (d : Dict) (k : String) (v : List Int) (h : hasKey d k = true) :
    (dictFlat (dictSet d k v) ++ dictGet d k).Perm (dictFlat d ++ v) := by
  induction d with
  | nil => simp [hasKey] at h
  | cons e es ih =>
    unfold dictSet dictGet
    by_cases he : (e.1 == k) = true
    · simp only [he, if_true, dictFlat, List.flatMap_cons]
      -- v ++ rest ++ e.2  ~  e.2 ++ rest ++ v
      have : (v ++ List.flatMap (fun x => x.2) es ++ e.2).Perm (e.2 ++ List.flatMap (fun x => x.2) es ++ v) := by
        rw [List.perm_iff_count]
        intro a
        simp only [List.count_append]
        omega
      exact this
    · have he' : (e.1 == k) = false := by simpa using he
      have hk : hasKey es k = true := by
        simp only [hasKey, List.any_cons, he', Bool.false_or] at h
        exact h
      simp only [he', Bool.false_eq_true, if_false, dictFlat, List.flatMap_cons, List.append_assoc]
      exact List.Perm.append_left _ (ih hk)

/-- **placeholders_exact** the grouped copies are exactly the indices `0..n-1`, plus two
deletion placeholders when nothing is called and one when a single copy is called - only
for a gene that has a whole-gene deletion allele. -/
theorem placeholders_exact (I : DipIn) :
    (dictFlat (phaseGroup I)).Perm
      ((List.range I.majors.length).map Int.ofNat ++
        (match I.delAllele with
         | some _ => List.replicate (2 - I.majors.length) (-1)
         | none => [])) := by
  have hfold : ∀ (l : List (String × Nat)) (acc : Dict),
      (dictFlat (l.foldl (fun acc mi => dictAppend acc (realKey mi.1) (mi.2 : Int)) acc)).Perm
        (dictFlat acc ++ l.map fun mi => (mi.2 : Int)) := by
    intro l
    induction l with
    | nil => intro acc; simp
    | cons x xs ih =>
      intro acc
      simp only [List.foldl_cons, List.map_cons]
      refine (ih _).trans ?_
      have := dictAppend_flat acc (realKey x.1) (x.2 : Int)
      exact (List.Perm.append_right _ this).trans (by simp)
  have hbase : (dictFlat ((I.majors.zipIdx).foldl (fun acc mi => dictAppend acc (realKey mi.1) (mi.2 : Int)) [])).Perm
      ((List.range I.majors.length).map Int.ofNat) := by
    refine (hfold _ []).trans ?_
    simp only [dictFlat, List.flatMap_nil, List.nil_append]
    have : (I.majors.zipIdx).map (fun mi => (mi.2 : Int)) = (List.range I.majors.length).map Int.ofNat := by
      have h2 : (I.majors.zipIdx).map (fun mi => (mi.2 : Int)) = ((I.majors.zipIdx).map (·.2)).map Int.ofNat := by
        rw [List.map_map]; rfl
      rw [h2, List.zipIdx_map_snd, List.range_eq_range']
    rw [this]
  unfold phaseGroup
  cases hdel : I.delAllele with
  | none => simpa using hbase
  | some del =>
    simp only
    by_cases h0 : I.majors.length = 0
    · simp only [h0, beq_self_eq_true, if_true]
      refine (dictAppend_flat _ _ _).trans ?_
      refine (List.Perm.append_right _ (dictAppend_flat _ _ _)).trans ?_
      refine (List.Perm.append_right _ (List.Perm.append_right _ hbase)).trans ?_
      simp [h0, List.replicate]
    · by_cases h1 : I.majors.length = 1
      · have : (I.majors.length == 0) = false := by simp [h0]
        simp only [this, Bool.false_eq_true, if_false, h1, beq_self_eq_true, if_true]
        refine (dictAppend_flat _ _ _).trans ?_
        refine (List.Perm.append_right _ hbase).trans ?_
        simp [h1, List.replicate]
      · have e0 : (I.majors.length == 0) = false := by simp [h0]
        have e1 : (I.majors.length == 1) = false := by simp [h1]
        simp only [e0, e1, Bool.false_eq_true, if_false]
        have : 2 - I.majors.length = 0 := by omega
        simpa [this] using hbase

/-! ### Non-vacuity / concrete behaviour (kernel-evaluated) -/

example : estimateDiplotype { majors := ["1", "2"], names := ["1", "2"], delAllele := some "5", tandems := [] } = [[0], [1]] := by
  decide +kernel
example : estimateDiplotype { majors := ["2", "1"], names := ["2", "1"], delAllele := some "5", tandems := [] } = [[1], [0]] := by
  decide +kernel
example : estimateDiplotype { majors := ["13", "1", "2"], names := ["13", "1", "2"], delAllele := none, tandems := [("13", "1")] }
    = [[2], [0, 1]] := by decide +kernel
example : estimateDiplotype { majors := [], names := [], delAllele := some "5", tandems := [] } = [[-1], [-1]] := by
  decide +kernel
example : natKey "4+rs123" = [.text [], .num 4, .text ['+', 'r', 's'], .num 123] := by decide +kernel

end Aldy
