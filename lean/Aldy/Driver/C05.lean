import Aldy.Model.Shape
import Aldy.Model.Wire
import Aldy.Model.Names
import Aldy.Driver.Views

/-! Driver op `c05`: evaluate a recorded `solutions()` trace against the Shape model. -/

namespace Aldy.Driver
open Lean Aldy.Wire

def jTerms (j : Json) : Except String (List (Rat × String)) := jList (jPair jRat jStr) j

def jSense (j : Json) : Except String Sense := do
  let s ← jStr j
  if s == "le" then pure .le else if s == "ge" then pure .ge else .error "bad sense"

def jLinCon (j : Json) : Except String (LinCon String) := do
  pure ⟨← jTerms (← field j "terms"), ← jSense (← field j "sense"), ← jRat (← field j "rhs")⟩

def jRow (j : Json) : Except String (Row String) := do
  pure ⟨← jTerms (← field j "terms"), ← jRat (← field j "target"), ← jRat (← field j "weight"),
        ← jRat? (← field j "bound")⟩

def jShape (j : Json) : Except String (Shape String) := do
  pure { bins := ← jList jStr (← field j "bins")
         rows := ← jList jRow (← field j "rows")
         cons := ← jList jLinCon (← field j "cons")
         prods := ← jList (jPair jStr (jList jStr)) (← field j "prods")
         lin := ← jTerms (← field j "lin")
         ints := ← jList (jPair jStr jNat) (fieldD j "ints" (.arr #[])) }

def jPt (j : Json) : Except String (Pt String) := do
  pure ⟨← jList jStr (← field j "act"), ← jRat (← field j "obj")⟩

def ptJ (p : Pt String) : Json := objJ [("act", listJ strJ p.act), ("obj", ratJ p.obj)]

/-- Input: shape, gap, eps, tol, limit, trace, helpers (per yield: values of `E_i`, `ABS_i`).
Output: verdict of `validRun`, the exhaustive optimum, the number of feasible points. -/
def opC05 (j : Json) : Except String Json := do
  let s ← jShape (← field j "shape")
  let gap ← jRat (← field j "gap")
  let eps ← jRat (← field j "eps")
  let tol ← jRat (← field j "tol")
  let limit ← jOpt jNat (fieldD j "limit" .null)
  let trace ← jList jPt (← field j "trace")
  let pts := s.points
  let verdict := validRun pts gap eps tol limit trace
  -- helper read-back: after each yield the harness reports E_i and ABS_i of the solver
  let helpers ← jList (jList (jPair jRat jRat)) (fieldD j "helpers" (.arr #[]))
  let helperMsgs := (trace.zip helpers).filterMap fun (p, hs) =>
    let bad := (s.rows.zip hs).any fun (r, (e, a)) =>
      let d1 := absR (e - r.err p.act)
      let d2 := absR (a - absR (r.err p.act))
      (d1 > tol) || (r.weight > 0 && d2 > tol)
    if bad then some s!"helper read-back differs from |error| at yield with act={p.act}" else none
  let best := minObj? pts
  pure <| objJ [
    ("verdict", optJ strJ verdict),
    ("helper", listJ strJ helperMsgs),
    ("npoints", natJ pts.length),
    ("best", optJ ratJ best),
    ("nwithin", natJ (match best with
      | none => 0
      | some b => (pts.filter fun p => !(rejected gap eps b p.obj)).length))]

/-! Canonical JSON form of an encoded model (tie (a)). -/

def svarName : SVar String → String
  | .b v => v
  | .e i => s!"E_{i}"
  | .a i => s!"ABS_E_{i}"

/-- The encoded model of a shape, with the names the harness uses. -/
def opShapeIlp (j : Json) : Except String Json := do
  let s ← jShape (← field j "shape")
  pure (ilpJ (mapIlp svarName s.toIlp))

/-- `escape_name` through the shared counter. -/
def opEscape (j : Json) : Except String Json := do
  let raw ← jList jStr (← field j "raw")
  pure (objJ [("names", listJ strJ (escapeSeq raw))])

end Aldy.Driver
