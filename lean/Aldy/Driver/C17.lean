import Aldy.Driver.Views
import Aldy.Model.Dump

namespace Aldy.Driver
open Lean Aldy.Wire

/-- compress / expand per site -/
def opDump (j : Json) : Except String Json := do
  let sites ← jList (jList jObs) (← field j "sites")
  let frags ← jList (jList (jPair jInt jStr)) (fieldD j "fragments" (.arr #[]))
  pure (objJ [
    ("compressed", listJ (fun (l : List Obs) => listJ (fun (e : Obs × Nat) => listJ id [ratJ e.1.1, ratJ e.1.2, natJ e.2]) (compressObs l)) sites),
    ("expanded", listJ (fun (l : List Obs) => listJ (fun (q : Obs) => listJ id [ratJ q.1, ratJ q.2]) (expandObs (compressObs l))) sites),
    ("phases", listJ (listJ (fun (kv : Int × String) => listJ id [intJ kv.1, strJ kv.2])) (dumpPhases frags))])

end Aldy.Driver
