import Aldy.Driver.Views
import Aldy.Model.Minor
import Aldy.Model.MinorSpec

namespace Aldy.Driver
open Lean Aldy.Wire

def jMinorInst (j : Json) : Except String MinorInst := do
  let g ← jGeneView (← field j "gene")
  let cands ← jList (fun c => do
    pure ({ major := ← jStr (← field c "major"), minor := ← jStr (← field c "minor"), defMuts := ← jList jMut (← field c "def") } : MinorCand)) (← field j "cands")
  let muts := constructionOrder (← jList jMut (← field j "mutations"))
  let frags ← jList (jList (jPair jInt jStr)) (fieldD j "phase_fragments" (.arr #[]))
  let p ← jProfile (← field j "profile")
  let majorSol ← jList (jPair jStr jNat) (← field j "major_sol")
  let I0 : MinorInst := { gene := g, cov := ← jCov (← field j "cov"), cn := ← jCNSol (← field j "cn"), majorSol := majorSol,
                          cands := cands, mutations := muts, minorMiss := p.minorMiss, minorAdd := p.minorAdd,
                          minorPhase := p.minorPhase, phases := [] }
  let usePhase ← jBool (fieldD j "use_phase" (.bool false))
  let modes := if usePhase then downsample (phaseModes (muts.map (·.pos)) frags) I0.slots.length p.minorPhaseVars else []
  pure { I0 with phases := modes }

def opMinorBuild (j : Json) : Except String Json := do
  let I ← jMinorInst j
  pure (ilpJ (mapIlp NVar.name I.build))

/-- read-out for a given set of active variable names -/
def opMinorReadout (j : Json) : Except String Json := do
  let I ← jMinorInst j
  let act ← jList jStr (← field j "active")
  let res := readOut I (fun v => act.contains v.name)
  pure (listJ (fun (c : CalledMinor) => objJ [("major", strJ c.major), ("minor", strJ c.minor),
      ("added", listJ mutJ c.added), ("missing", listJ mutJ c.missing)]) res)

/-- spec level (Props/C04Spec): the documented objective `specMinor` of the assignment given by the active variable
names - by `minor_optimum_score_is_spec` the objective of an optimum that reports it -/
def opMinorSpec (j : Json) : Except String Json := do
  let I ← jMinorInst j
  let act ← jList jStr (← field j "active")
  let defsConsidered := I.slots.all fun cs => cs.1.defMuts.all fun m => I.mutations.contains m
  pure (objJ [("spec", ratJ (I.specMinor (fun v => act.contains v.name))), ("defs_considered", boolJ defsConsidered)])

end Aldy.Driver
