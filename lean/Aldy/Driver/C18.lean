import Aldy.Model.Wire
import Aldy.Model.Params

namespace Aldy.Driver
open Lean Aldy.Wire Aldy.Const

def jPyVal (j : Json) : Except String PyVal := do
  match ← jStr (← field j "t") with
  | "str" => pure (.str (← jStr (← field j "v")))
  | "bool" => pure (.bool (← jBool (← field j "v")))
  | "int" => pure (.int (← jInt (← field j "v")))
  | "float" => pure (.float (← jRat (← field j "v")))
  | "none" => pure .none
  | t => .error s!"bad PyVal tag {t}"

def pvalJ : PVal → Json
  | .none => objJ [("t", strJ "none")]
  | .bool b => objJ [("t", strJ "bool"), ("v", boolJ b)]
  | .int n => objJ [("t", strJ "int"), ("v", intJ n)]
  | .float q => objJ [("t", strJ "float"), ("v", ratJ q)]
  | .str s => objJ [("t", strJ "str"), ("v", strJ s)]
  | .arg s => objJ [("t", strJ "arg"), ("v", strJ s)]

/-- one `update` call on a fresh profile, optionally followed by the options round trip -/
def opParamsUpdate (j : Json) : Except String Json := do
  let kw ← jList (jPair jStr jPyVal) (← field j "kwargs")
  match update initState kw with
  | .error n => pure (objJ [("invalid", strJ n)])
  | .ok (st, ps) =>
    -- round trip: feed the typed values back (options section of a written profile)
    let back := update initState (ps.map fun e => (e.1, toPy e.2))
    let rt := match back with
      | .ok (st2, _) => boolJ (st2 == st)
      | .error _ => boolJ false
    pure (objJ [("values", listJ (fun (e : String × PVal) => listJ id [strJ e.1, pvalJ e.2]) st),
                ("params", listJ (fun (e : String × PVal) => listJ id [strJ e.1, pvalJ e.2]) ps),
                ("roundtrip", rt)])

def opSplitParam (j : Json) : Except String Json := do
  let p ← jStr (← field j "p")
  pure (match splitParam p with
    | some (k, v) => objJ [("k", strJ k), ("v", strJ v)]
    | none => objJ [("invalid", boolJ true)])

def opParamTable (_ : Json) : Except String Json :=
  pure (listJ (fun (e : String × PVal) => listJ id [strJ e.1, pvalJ e.2]) PROFILE_PARAMS)

/-- `Profile.load(gene, file, **kwargs)`: options section of the file, explicit parameters, neutral value of the file -/
def opParamsLoad (j : Json) : Except String Json := do
  let opts ← jList (jPair jStr jPyVal) (← field j "options")
  let kw ← jList (jPair jStr jPyVal) (← field j "kwargs")
  let nv ← jPyVal (← field j "neutral")
  match update initState (loadOptions opts kw nv) with
  | .error n => pure (objJ [("invalid", strJ n)])
  | .ok (st, _) => pure (objJ [("values", listJ (fun (e : String × PVal) => listJ id [strJ e.1, pvalJ e.2]) st)])

end Aldy.Driver
