import Aldy.Model.Wire
import Aldy.Model.Coords

namespace Aldy.Driver
open Lean Aldy.Wire

def jCigOp (j : Json) : Except String CigOp := do
  let (o, n) ← jPair jStr jNat j
  match o with
  | "M" => pure (.M n)
  | "I" => pure (.I n)
  | "D" => pure (.D n)
  | _ => .error s!"bad cigar op {o}"

/-- input: RefSeq sequence, mapping, raw database entries `[pos1, op]`.
output per entry: loaded `(genome pos, op)` or `null`, reference-allele check, and whether the
variant denotes the same haplotype in both coordinate systems -/
def opCoords (j : Json) : Except String Json := do
  let seq := (← jStr (← field j "seq")).toList
  let start ← jInt (← field j "start")
  let endP ← jInt (← field j "end")
  let strand ← jInt (← field j "strand")
  let cigar ← jList jCigOp (← field j "cigar")
  let entries ← jList (jPair jInt jStr) (← field j "entries")
  let m := mkMaps seq start endP strand cigar
  let res := entries.map fun (pos1, opS) =>
    let k := parseOp opS.toList
    match convertMut m pos1 k with
    | none => Json.null
    | some (g, k') =>
      -- the gene-oriented view of the genome reference and the index of RefSeq base `pos1` in it
      let R := orient strand m.lookup
      let g0 := (m.refToChr (pos1 - 1)).getD g
      let idx : Int := if strand < 0 then m.lookupEnd - 1 - g0 else g0 - m.lookupStart
      let lhs := orient strand (applyGenome m g k')
      let rhs := applyAt R 0 idx k
      objJ [("g", intJ g), ("op", strJ (String.ofList (renderOp k'))),
            ("ref_ok_refseq", boolJ (refMatches seq 1 pos1 k)),
            ("ref_ok_genome", boolJ (refMatches m.lookup m.lookupStart g k')),
            ("same_haplotype", boolJ (lhs == rhs)),
            ("refseq_is_oriented_lookup", boolJ (R == seq)),
            ("back", strJ (String.ofList (renderOp (if strand < 0 then reverseOp k' else k'))))]
  pure (objJ [("lookup", strJ (String.ofList m.lookup)),
              ("n_pairs", natJ m.pairs.length),
              ("pairs_head", listJ (fun (p : Int × Int) => listJ intJ [p.1, p.2]) (m.pairs.take 3)),
              ("pairs_last", listJ (fun (p : Int × Int) => listJ intJ [p.1, p.2]) (m.pairs.reverse.take 3)),
              ("pairs_digest", intJ (m.pairs.foldl (fun acc p => (acc * 31 + p.1 * 7 + p.2) % 1000000007) 0)),
              ("entries", .arr res.toArray)])

end Aldy.Driver
