import Aldy.Driver.C06
import Aldy.Model.VcfIn

namespace Aldy.Driver
open Lean Aldy.Wire

def jVcfRecord (j : Json) : Except String VcfRecord := do
  pure { pos0 := ← jInt (← field j "pos0"), ref := (← jStr (← field j "ref")).toList,
         alts := (← jList jStr (← field j "alts")).map (·.toList),
         gt := ← jList (jOpt jNat) (← field j "gt") }

/-- `_load_vcf` + `_make_coverage` + `Coverage.__init__`: counts per (position, operation) -/
def opVcfLoad (j : Json) : Except String Json := do
  let l ← jLocus (← field j "locus")
  let recs ← jList jVcfRecord (← field j "records")
  let indelTruthy ← jBool (← field j "indel_table_truthy")
  let s := loadVcf l recs
  let muts := s.muts.filterMap fun e =>
    if e.2 == 0 then none
    else
      let op := if !l.inBounds e.1.pos && !opIsIns e.1.op then "_" else e.1.op
      if indelTruthy && opIsIns op then none else some (e.1.pos, op, e.2)
  let norm := s.norm.filterMap fun e => if e.2 == 0 then none else some (e.1, "_", e.2)
  -- merge equal keys
  let all := norm ++ muts
  let keys := (all.map fun e => (e.1, e.2.1)).eraseDups
  let merged := keys.map fun k => (k.1, k.2, ((all.filter fun e => e.1 == k.1 && e.2.1 == k.2).map (·.2.2)).sum)
  pure (listJ (fun (e : Int × String × Nat) => listJ id [intJ e.1, strJ e.2.1, natJ e.2.2]) merged)

end Aldy.Driver
