import Aldy.Driver.Views
import Aldy.Model.CN

namespace Aldy.Driver
open Lean Aldy.Wire

def jCNInst (j : Json) : Except String CNInst := do
  let g ← jGeneView (← field j "gene")
  let names ← jList jStr (← field j "configs")
  let configs ← names.mapM fun n => match g.config? n with
    | some c => pure c
    | none => .error s!"unknown config {n}"
  pure { gene := g, prof := ← jProfile (← field j "profile"), configs := configs,
         maxCn := ← jNat (← field j "max_cn"),
         regionCov := ← jList (jPair jStr (jPair jRat jRat)) (← field j "region_cov"),
         fusionSupport := ← jList (jPair jStr jRat) (fieldD j "fusion_support" (.arr #[])) }

def opCNBuild (j : Json) : Except String Json := do
  let I ← jCNInst j
  pure (ilpJ (mapIlp CVar.name I.build))

/-- spec level (Props/C03Spec): the documented score `specCN` of every yielded selection of slots - by
`cn_optimum_is_spec_min` the objective of an optimum with that selection -/
def opCNSpec (j : Json) : Except String Json := do
  let I ← jCNInst j
  let ys ← jList (jList (jPair jStr jInt)) (← field j "selections")
  let rowsNodup := (I.rows.map (·.1)).eraseDups.length == I.rows.length
  pure (objJ [("rows_nodup", boolJ rowsNodup),
              ("spec", listJ (fun (act : List (String × Int)) =>
                  let σ : CVar → Rat := fun v => match v with
                    | .S n i => if act.contains (n, i) then 1 else 0
                    | _ => 0
                  ratJ (I.specCN σ)) ys)])

def opCNFilter (j : Json) : Except String Json := do
  let g ← jGeneView (← field j "gene")
  let p ← jProfile (← field j "profile")
  let c ← jCov (← field j "cov")
  pure (objJ [("configs", listJ strJ ((filterConfigs g p c).map (·.name)))])

def opCNFold (j : Json) : Except String Json := do
  let del ← jOpt jStr (fieldD j "del" .null)
  let ys ← jList (jPair jRat (jList (jPair jStr jInt))) (← field j "yields")
  pure (listJ (fun (e : List String × Rat) => listJ id [listJ strJ e.1, ratJ e.2]) (foldCN del ys))

def decisionJ : CNDecision → Json
  | .user s => objJ [("kind", strJ "user"), ("sol", listJ strJ s)]
  | .unknownConfig n => objJ [("kind", strJ "unknown"), ("name", strJ n)]
  | .fixed s => objJ [("kind", strJ "fixed"), ("sol", listJ strJ s)]
  | .tooLow => objJ [("kind", strJ "too_low")]
  | .solve n => objJ [("kind", strJ "solve"), ("max_cn", natJ n)]

def opCNDecision (j : Json) : Except String Json := do
  let g ← jGeneView (← field j "gene")
  let user ← jOpt (jList jStr) (fieldD j "user" .null)
  pure (decisionJ (cnDecision g user (← jBool (← field j "do_copy_number")) (← jBool (← field j "male"))
    (← jBool (← field j "chr_xy")) (← jList jRat (← field j "all_region_cov"))
    (← jList (jPair jRat jRat) (← field j "rows"))))

end Aldy.Driver
