import Aldy.Model.Wire
import Aldy.Model.Select

namespace Aldy.Driver
open Lean Aldy.Wire

def jCand (j : Json) : Except String Cand := do
  pure { score := ← jRat (← field j "score"), nice := ← jStr (← field j "nice"),
         parent := ← jNat (fieldD j "parent" (.num 0)) }

def candJ (c : Cand) : Json := objJ [("score", ratJ c.score), ("nice", strJ c.nice), ("parent", natJ c.parent)]

/-- recompute the stages of genotype() from the recorded stage returns -/
def opSelect (j : Json) : Except String Json := do
  let gap ← jRat (← field j "gap")
  let cn ← jList jCand (← field j "cn")
  let cnS := sortStructures cn
  -- majors: per *sorted* structure, the raw candidates estimate_major returned
  let majors ← jList (jList jCand) (fieldD j "majors" (.arr #[]))
  let majC := carryMajor cnS majors
  let majSel := selectStage majC gap
  -- minors: raw objectives returned by solve_minor_model with parent = index into majSel
  let minorsRaw ← jList jCand (fieldD j "minors" (.arr #[]))
  let minC := minorsRaw.map fun m => { m with score := carryMinorStage majSel m }
  let minR := minC.map fun m => { m with score := rescaleMinor cnS majSel m }
  let final := selectStage minR gap
  pure (objJ [("cn_sorted", listJ candJ cnS), ("major_carried", listJ candJ majC), ("major_selected", listJ candJ majSel),
              ("minor_carried", listJ candJ minC), ("final", listJ candJ final),
              ("stage_error", if cn.isEmpty then strJ "no_structures" else if majC.isEmpty then strJ "no_major"
                        else if minorsRaw.isEmpty then strJ "no_minor" else .null)])

end Aldy.Driver
