import Aldy.Driver.Views
import Aldy.Model.Writers

namespace Aldy.Driver
open Lean Aldy.Wire

def jCopyV (j : Json) : Except String CopyV := do
  pure { major := ← jStr (← field j "major"), minor := ← jStr (← field j "minor"),
         defMuts := ← jList jMut (← field j "def"), added := ← jList jMut (← field j "added"),
         missing := ← jList jMut (← field j "missing") }

def jSolV (j : Json) : Except String SolV := do
  pure { copies := ← jList jCopyV (← field j "copies"), diplotype := ← jStr (← field j "diplotype") }

def jMutText (j : Json) : Except String MutText := do
  pure { m := ← jMut (← field j "m"), cov := ← jStr (← field j "cov"), effect := ← jStr (← field j "effect"),
         effectVcf := ← jStr (← field j "effect_vcf"), rsid := ← jStr (← field j "rsid") }

def opWriters (j : Json) : Except String Json := do
  let sols ← jList jSolV (← field j "sols")
  let tab ← jList jMutText (← field j "tab")
  let sample ← jStr (← field j "sample")
  let gene ← jStr (← field j "gene")
  let decomp := (sols.zipIdx).map fun si => renderRows (decompRows sample gene (si.2 + 1) tab si.1)
  let parsed := (sols.zipIdx).map fun si => parseRows (decompRows sample gene (si.2 + 1) tab si.1) si.1.copies.length
  let recs := vcfRecords tab sols
  pure (objJ [
    ("decomp", listJ (listJ strJ) decomp),
    ("parsed", listJ (listJ (fun (e : String × List (String × String)) =>
        listJ id [strJ e.1, listJ (fun (p : String × String) => listJ strJ [p.1, p.2]) e.2])) parsed),
    ("vcf", listJ (fun (r : VcfRec) => objJ [("pos", intJ r.pos1), ("id", strJ r.id), ("ref", strJ r.ref), ("alt", strJ r.alt),
        ("effect", strJ r.effect),
        ("cells", listJ (fun (c : String × String × String × String) => listJ strJ [c.1, c.2.1, c.2.2.1, c.2.2.2]) r.cells)]) recs)])

end Aldy.Driver
