import Aldy.Model.Wire
import Aldy.Model.Diplotype

namespace Aldy.Driver
open Lean Aldy.Wire

def jAdded (j : Json) : Except String AddedMut := do
  pure { pos := ← jInt (← field j "pos"), op := ← jStr (← field j "op"), rsid := ← jStr (← field j "rsid"),
         functional := ← jBool (← field j "functional"), refPos := ← jInt (fieldD j "ref_pos" (.num 0)) }

/-- input: per copy `major` and `added` (unsorted), deletion allele, tandems.
output: names, arrangement, rendered diplotype -/
def opDiplotype (j : Json) : Except String Json := do
  let copies ← jList (fun c => do
    let m ← jStr (← field c "major")
    let a ← jList jAdded (← field c "added")
    pure (m, a)) (← field j "copies")
  let del ← jOpt jStr (fieldD j "del" .null)
  let tandems ← jList (jPair jStr jStr) (← field j "tandems")
  let names := copies.map fun c => majorName c.1 (sortStable addedLt c.2)
  let I : DipIn := { majors := copies.map (·.1), names := names, delAllele := del, tandems := tandems }
  let d := estimateDiplotype I
  -- hypothesis of `diplotype_two_order_independent` (Props/C11Order): different names, different natural-sort keys
  let keysDistinct := names.all fun x => names.all fun y =>
    x == y || keyLt (natKey x) (natKey y) || keyLt (natKey y) (natKey x)
  pure (objJ [("names", listJ strJ names),
              ("keys_distinct", boolJ keysDistinct),
              ("diplotype", listJ (listJ intJ) d),
              ("text", strJ (renderDiplotype I d))])

def chunkJ : Chunk → Json
  | .text s => strJ (String.ofList s)
  | .num n => natJ n

def opNatKey (j : Json) : Except String Json := do
  let ss ← jList jStr (← field j "names")
  pure (listJ (fun s => listJ chunkJ (natKey s)) ss)

end Aldy.Driver
