import Aldy.Driver.C08
import Aldy.Driver.Views
import Aldy.Model.Catalogue

namespace Aldy.Driver
open Lean Aldy.Wire

def jRawEntry (j : Json) : Except String RawEntry := do
  match ← jStr (← field j "t") with
  | "v" => pure (.variant (← jInt (← field j "pos")) (← jStr (← field j "op")) (← jStr (← field j "rsid"))
                  (← jOpt jStr (fieldD j "fn" .null)))
  | "g" => pure (.geneOp (← jStr (← field j "target")) (← jStr (← field j "op")))
  | _ => pure .ignored

def jRawAllele (j : Json) : Except String RawAllele := do
  pure { rawName := ← jStr (← field j "name"), label := ← jOpt jStr (fieldD j "label" .null),
         ignored := ← jBool (fieldD j "ignored" (.bool false)), entries := ← jList jRawEntry (← field j "entries") }

def jRawDb (j : Json) : Except String RawDb := do
  pure { name := ← jStr (← field j "name"), seq := (← jStr (← field j "seq")).toList,
         start := ← jInt (← field j "start"), endP := ← jInt (← field j "end"), strand := ← jInt (← field j "strand"),
         cigar := ← jList jCigOp (← field j "cigar"), genes := ← jList jStr (← field j "genes"),
         regionCoords := ← jList (jPair jStr (jList jInt)) (← field j "regions"),
         cnRegions := ← jList jStr (← field j "cn_regions"),
         tandems := ← jList (jPair jStr jStr) (fieldD j "tandems" (.arr #[])),
         random := ← jList jRawEntry (fieldD j "random" (.arr #[])),
         groups := ← jList (jPair jStr (jList jRawEntry)) (fieldD j "groups" (.arr #[])),
         alleles := ← jList jRawAllele (← field j "alleles") }

def kindStr : CNKind → String
  | .default => "default" | .leftFusion => "left_fusion" | .rightFusion => "right_fusion"
  | .deletion => "deletion" | .custom => "custom"

def opCatalogue (j : Json) : Except String Json := do
  let db ← jRawDb (← field j "db")
  let c := buildCatalogue db
  pure (objJ [
    ("mutations", listJ (fun (t : MutMeta) => objJ [("pos", intJ t.m.pos), ("op", strJ t.m.op), ("fn", optJ strJ t.function),
        ("rsid", strJ t.rsid), ("pos0", intJ t.pos0), ("orig_pos0", intJ t.origPos0), ("orig_op", strJ t.origOp)]) c.mutations),
    ("alleles", listJ (fun (a : MajorA) => objJ [("name", strJ a.name), ("cn_config", strJ a.cnConfig),
        ("func", listJ mutJ a.func),
        ("minors", listJ (fun (m : MinorA) => objJ [("name", strJ m.name), ("alt", optJ strJ m.altName), ("neutral", listJ mutJ m.neutral)]) a.minors)]) c.alleles),
    ("cn_configs", listJ (fun (k : CNConf) => objJ [("name", strJ k.name), ("kind", strJ (kindStr k.kind)),
        ("cn", listJ (listJ (fun (rv : String × Int) => listJ id [strJ rv.1, intJ rv.2])) k.cn), ("alleles", listJ strJ k.alleles)]) c.cnConfigs),
    ("removed", listJ (fun (p : String × String) => listJ strJ [p.1, p.2]) c.removed),
    ("regions", listJ (listJ (fun (r : Region) => listJ id [strJ r.name, intJ r.start, intJ r.stop])) c.regions)])

end Aldy.Driver
