import Aldy.Driver.Views
import Aldy.Model.Pileup

namespace Aldy.Driver
open Lean Aldy.Wire

def jLocus (j : Json) : Except String LocusV := do
  pure { lookupStart := ← jInt (← field j "lookup_start")
         lookupSeq := (← jStr (← field j "lookup_seq")).toList.toArray
         mapped := ← jList (jPair jInt jInt) (← field j "mapped")
         phaseable := ← jList jInt (← field j "phaseable")
         multiSites := ← jList (jPair jInt jStr) (← field j "multi_sites")
         indelEqs := ← jList (jPair (jPair jInt jStr) (jPair jInt jStr)) (fieldD j "indel_eqs" (.arr #[]))
         wide := ← jPair jInt jInt (← field j "wide") }

def jRead (j : Json) : Except String (ReadV × Bool × Bool) := do
  let r : ReadV := {
    fragment := ← jStr (← field j "fragment"), refStart := ← jInt (← field j "pos"),
    cigar := ← jList (jPair jNat jNat) (← field j "cigar"),
    seq := (← jStr (← field j "seq")).toList.toArray,
    mq := ← jRat (← field j "mq"),
    qual := ← jOpt (fun q => do pure (← jList jRat q).toArray) (fieldD j "qual" .null),
    hasCigar := ← jBool (fieldD j "has_cigar" (.bool true)),
    supplementary := ← jBool (fieldD j "supplementary" (.bool false)),
    refEnd := ← jOpt jInt (fieldD j "ref_end" .null),
    sameChrom := ← jBool (fieldD j "same_chrom" (.bool true)) }
  pure (r, ← jBool (fieldD j "hard_clipped" (.bool false)), ← jBool (fieldD j "empty_seq" (.bool false)))

def evJ (e : Ev) : Json := listJ id [intJ e.pos, strJ e.op, ratJ e.obs.1, ratJ e.obs.2]

/-- pile up a list of reads: per-read events (optionally filtered by eligibility), the
assembled table and the final phase record per fragment -/
def opPileup (j : Json) : Except String Json := do
  let l ← jLocus (← field j "locus")
  let reads ← jList jRead (← field j "reads")
  let useElig ← jBool (fieldD j "check_eligibility" (.bool false))
  let kept := reads.filter fun r => !useElig || eligible l r.1 r.2.1 r.2.2
  let parsed := kept.map fun r => (r.1.fragment, parseRead l r.1)
  let evs := parsed.flatMap fun p => p.2.1
  let table := makeTable l evs
  -- phase: dict per fragment, later writes win; keep fragments in first-seen order
  let frags := (parsed.map (·.1)).eraseDups
  let phases := frags.map fun f =>
    let writes := (parsed.filter (·.1 == f)).flatMap fun p => p.2.2
    let keys := (writes.map (·.1)).eraseDups
    (f, keys.map fun k => (k, ((writes.reverse.find? (·.1 == k)).map (·.2)).getD ""))
  pure (objJ [("eligible", listJ boolJ (reads.map fun r => eligible l r.1 r.2.1 r.2.2)),
              ("events", listJ (fun (p : String × (List Ev × List (Int × String))) => listJ evJ p.2.1) parsed),
              ("table", listJ (fun (e : Int × List (String × List Obs)) =>
                  listJ id [intJ e.1, listJ (fun (o : String × List Obs) =>
                    listJ id [strJ o.1, listJ (fun (q : Obs) => listJ id [ratJ q.1, ratJ q.2]) o.2]) e.2]) table),
              ("phases", listJ (fun (p : String × List (Int × String)) =>
                  listJ id [strJ p.1, listJ (fun (kv : Int × String) => listJ id [intJ kv.1, strJ kv.2]) p.2]) phases)])

end Aldy.Driver
