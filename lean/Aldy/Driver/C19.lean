import Aldy.Model.Wire
import Aldy.Model.Guards

namespace Aldy.Driver
open Lean Aldy.Wire

def guardOutStr : GuardOut → String
  | .emptyNeutral => "empty_neutral"
  | .invalidProfile => "invalid_profile"
  | .lowNeutralDepth => "low_neutral_depth"
  | .lowAverageDepth => "low_average_depth"
  | .proceed => "proceed"

def opGuard (j : Json) : Except String Json := do
  let i : GuardIn := {
    kindVcf := ← jBool (← field j "kind_vcf"), hasCnRegion := ← jBool (← field j "has_cn_region"),
    avgCov := ← jRat (← field j "avg_cov"), minAvgCov := ← jRat (← field j "min_avg_cov"),
    neutralSum := ← jRat (← field j "neutral_sum"), neutralValue := ← jRat (← field j "neutral_value"),
    neutralLen := ← jRat (← field j "neutral_len") }
  pure (objJ [("out", strJ (guardOutStr (guard i)))])

end Aldy.Driver
