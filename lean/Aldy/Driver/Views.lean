import Aldy.Model.Wire
import Aldy.Model.Coverage
import Aldy.Model.Ilp

/-! JSON decoders/encoders for the shared views (gene, coverage, profile, structure). -/

namespace Aldy.Driver
open Lean Aldy.Wire

def jMut (j : Json) : Except String Mut := do
  let (p, o) ← jPair jInt jStr j
  pure ⟨p, o⟩

def mutJ (m : Mut) : Json := listJ id [intJ m.pos, strJ m.op]

def jKind (j : Json) : Except String CNKind := do
  match ← jStr j with
  | "default" => pure .default
  | "left_fusion" => pure .leftFusion
  | "right_fusion" => pure .rightFusion
  | "deletion" => pure .deletion
  | "custom" => pure .custom
  | s => .error s!"bad cn kind {s}"

def jCNConf (j : Json) : Except String CNConf := do
  pure { name := ← jStr (← field j "name")
         kind := ← jKind (← field j "kind")
         cn := ← jList (jList (jPair jStr jInt)) (← field j "cn")
         alleles := ← jList jStr (fieldD j "alleles" (.arr #[])) }

def jMinorA (j : Json) : Except String MinorA := do
  pure { name := ← jStr (← field j "name")
         neutral := ← jList jMut (← field j "neutral")
         altName := ← jOpt jStr (fieldD j "altName" .null) }

def jMajorA (j : Json) : Except String MajorA := do
  pure { name := ← jStr (← field j "name")
         cnConfig := ← jStr (← field j "cnConfig")
         func := ← jList jMut (← field j "func")
         minors := ← jList jMinorA (fieldD j "minors" (.arr #[])) }

def jMutInfo (j : Json) : Except String MutInfo := do
  pure { m := ⟨← jInt (← field j "pos"), ← jStr (← field j "op")⟩
         functional := ← jBool (← field j "functional")
         rsid := ← jStr (fieldD j "rsid" (.str "-")) }

def jGeneView (j : Json) : Except String GeneView := do
  pure { name := ← jStr (← field j "name")
         regionNames := ← jList jStr (← field j "regionNames")
         nGenes := ← jNat (← field j "nGenes")
         uniqueRegions := ← jList jStr (← field j "uniqueRegions")
         regionAt := ← jList (jPair jInt (jPair jNat jStr)) (← field j "regionAt")
         mutations := ← jList jMutInfo (← field j "mutations")
         alleles := ← jList jMajorA (← field j "alleles")
         cnConfigs := ← jList jCNConf (← field j "cnConfigs")
         randomMuts := ← jList jMut (fieldD j "randomMuts" (.arr #[]))
         tandems := ← jList (jPair jStr jStr) (fieldD j "tandems" (.arr #[])) }

def jObs (j : Json) : Except String Obs := jPair jRat jRat j

def jTable (j : Json) : Except String (List (Int × List (String × List Obs))) :=
  jList (jPair jInt (jList (jPair jStr (jList jObs)))) j

def jIndels (j : Json) : Except String (List (Mut × (Rat × Rat))) :=
  jList (jPair jMut (jPair jRat jRat)) j

def jCov (j : Json) : Except String Cov := do
  pure { table := ← jTable (← field j "table"), indels := ← jIndels (fieldD j "indels" (.arr #[])) }

def covJ (c : Cov) : Json :=
  objJ [("table", listJ (fun (e : Int × List (String × List Obs)) =>
            listJ id [intJ e.1, listJ (fun (o : String × List Obs) =>
              listJ id [strJ o.1, listJ (fun (q : Obs) => listJ id [ratJ q.1, ratJ q.2]) o.2]) e.2]) c.table),
        ("indels", listJ (fun (e : Mut × (Rat × Rat)) => listJ id [mutJ e.1, listJ id [ratJ e.2.1, ratJ e.2.2]]) c.indels)]

def jCNSol (j : Json) : Except String CNSol := do
  pure { solution := ← jList (jPair jStr jNat) j }

def ratField (j : Json) (k : String) (d : Rat) : Except String Rat :=
  match j.getObjVal? k with
  | .ok v => jRat v
  | .error _ => pure d

def jProfile (j : Json) : Except String ProfileV := do
  let r := fun k => ratField j k (Const.profileDefault k)
  pure { threshold := ← r "threshold", minCoverage := ← r "min_coverage", minQuality := ← r "min_quality",
         minMapq := ← r "min_mapq", cnMax := ← r "cn_max", gap := ← r "gap",
         cnPcePenalty := ← r "cn_pce_penalty", cnDiff := ← r "cn_diff", cnFit := ← r "cn_fit",
         cnParsimony := ← r "cn_parsimony", cnFusionLeft := ← r "cn_fusion_left",
         cnFusionRight := ← r "cn_fusion_right", majorNovel := ← r "major_novel",
         minorMiss := ← r "minor_miss", minorAdd := ← r "minor_add", minorPhase := ← r "minor_phase",
         minorPhaseVars := ← r "minor_phase_vars",
         phase := ← (match j.getObjVal? "phase" with | .ok v => jBool v | .error _ => pure true),
         male := ← (match j.getObjVal? "male" with | .ok v => jBool v | .error _ => pure false),
         maxMinorSolutions := ← (match j.getObjVal? "max_minor_solutions" with | .ok v => jNat v | .error _ => pure 1) }

/-! generic ILP output -/

def kindJ : Kind → Json
  | .bin => objJ [("k", strJ "B")]
  | .cont lb ub => objJ [("k", strJ "C"), ("lb", optJ ratJ lb), ("ub", optJ ratJ ub)]
  | .int ub => objJ [("k", strJ "I"), ("ub", natJ ub)]

def termsJ (ts : List (Rat × String)) : Json := listJ (fun t => listJ id [ratJ t.1, strJ t.2]) ts

def conJ (c : LinCon String) : Json :=
  objJ [("terms", termsJ c.terms), ("sense", strJ (match c.sense with | .le => "le" | .ge => "ge")), ("rhs", ratJ c.rhs)]

def ilpJ (m : Ilp String) : Json :=
  objJ [("vars", listJ (fun v => listJ id [strJ v.1, kindJ v.2]) m.vars),
        ("cons", listJ conJ m.cons),
        ("obj", termsJ m.obj)]

end Aldy.Driver
