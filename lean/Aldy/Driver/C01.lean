import Aldy.Driver.C02
import Aldy.Driver.C04
import Aldy.Model.Planted

/-! Driver ops for C01: decide the hypotheses of the planted-genotype theorems on real stage inputs. -/

namespace Aldy.Driver
open Lean Aldy.Wire

/-- `Planted I k` (as `plantedB`), the clauses that fail, the rows whose observed copy number is
not the planted one, and the planted point evaluated in `MajorInst.build` -/
def opPlantedMajor (j : Json) : Except String Json := do
  let I ← jMajorInst j
  let kl ← jList (jPair jStr jNat) (← field j "k")
  let k : String → Nat := fun a => (kl.lookup a).getD 0
  let σ := plantedσ I k
  let viol := I.build.violated σ
  pure (objJ [("planted", boolJ (plantedB I k)),
              ("failing", listJ strJ (((plantedClauses I k).filter (!·.2)).map (·.1))),
              ("mismatch", listJ (fun (x : Mut × Rat × Rat) => listJ id [intJ x.1.pos, strJ x.1.op, ratJ x.2.1, ratJ x.2.2]) (plantedMismatch I k)),
              ("violated_cons", natJ viol.1.length), ("violated_vars", natJ viol.2.length),
              ("objective", ratJ (I.build.objective σ))])

/-- the planted point of the minor model evaluated in `MinorInst.build` -/
def opPlantedMinor (j : Json) : Except String Json := do
  let I ← jMinorInst j
  let cl ← jList (fun x => do
      let a ← jList pure x
      match a with
      | [ma, mi, n] => pure ((← jStr ma, ← jStr mi), ← jNat n)
      | _ => .error "copies: [major, minor, n]") (← field j "copies")
  let copies : String → String → Nat := fun ma mi => (cl.lookup (ma, mi)).getD 0
  let σ := I.plantedσ copies
  let viol := I.build.violated σ
  -- hypotheses of `planted_minor_zero` (Props/C01Minor): phase patterns attributed as the evaluated point does
  let chosen := I.choosePhase I.phaseCells (fun s => decide (s.idx < copies s.major s.minor))
  let choose : Nat → Option Nat := fun ri => (chosen.find? fun ar => ar.2 == ri).map (·.1)
  let clauses := I.plantedMinorClauses copies choose
  let err := (I.errRows.map fun m => σ (.ABS m)).sum
  let consNames := viol.1.take 5
  pure (objJ [("violated_cons", listJ natJ consNames), ("n_violated_cons", natJ viol.1.length),
              ("violated_vars", natJ viol.2.length),
              ("objective", ratJ (I.build.objective σ)), ("error_sum", ratJ err),
              ("n_cons", natJ I.build.cons.length),
              ("planted_minor", boolJ (clauses.all (·.2))),
              ("failing", listJ strJ ((clauses.filter (!·.2)).map (·.1))),
              ("n_phase_cells", natJ I.phaseCells.length),
              ("bad_rows", listJ (fun (m : Mut) => listJ id [intJ m.pos, strJ m.op, ratJ (σ (.E m))]) (I.errRows.filter fun m => σ (.E m) != 0))])

end Aldy.Driver
