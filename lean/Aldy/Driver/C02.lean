import Aldy.Driver.Views
import Aldy.Model.Major
import Aldy.Model.Filters
import Aldy.Model.Planted

/-! Driver ops for the major stage. -/

namespace Aldy.Driver
open Lean Aldy.Wire

def jMajorInst (j : Json) : Except String MajorInst := do
  let g ← jGeneView (← field j "gene")
  let names ← jList jStr (← field j "alleles")
  let alleles ← names.mapM fun n => match g.allele? n with
    | some a => pure a
    | none => .error s!"unknown allele {n}"
  pure { gene := g, cov := ← jCov (← field j "cov"), cn := ← jCNSol (← field j "cn"), alleles := alleles,
         majorNovel := ← jRat (← field j "major_novel"), gap := ← jRat (← field j "gap") }

/-- `buildMajor`: the encoded model with the names CBC sees. -/
def opMajorBuild (j : Json) : Except String Json := do
  let I ← jMajorInst j
  pure (ilpJ (mapIlp MVar.name I.build))

/-- spec level (Props/C02Spec): for every multiset `k` sent, is it an admissible decision and what is its
documented score `specMajor` - by `major_min_objective_is_spec` the least objective of the model among the points
that select `k` -/
def opMajorSpec (j : Json) : Except String Json := do
  let I ← jMajorInst j
  let ks ← jList (jList (jPair jStr jNat)) (← field j "ks")
  let noRefOps := I.funcMuts.all fun m => !(m.op == "_")
  pure (objJ [("no_ref_ops", boolJ noRefOps),
              ("ks", listJ (fun (kl : List (String × Nat)) =>
                  let k : String → Nat := fun a => (kl.lookup a).getD 0
                  objJ [("admissible", boolJ (I.admissibleB k)), ("spec", ratJ (I.specMajor k))]) ks)])

/-- two builds of one sample (Props/C13Spec): the clauses of `MajorCorr` decided on the two real inputs of the major
stage; `pi` pairs the catalogued variants of the two builds by RefSeq identity, `rho` their sites -/
def opMajorCorr (j : Json) : Except String Json := do
  let I ← jMajorInst (← field j "I")
  let J ← jMajorInst (← field j "J")
  let πl ← jList (jPair jMut jMut) (← field j "pi")
  let ρl ← jList (jPair jInt jInt) (← field j "rho")
  let cl := MajorInst.majorCorrClauses I J πl ρl
  pure (objJ [("corr", boolJ (cl.all (·.2))), ("failing", listJ strJ ((cl.filter (!·.2)).map (·.1)))])

/-- `_filter_alleles`: surviving allele names and the filtered coverage. -/
def opMajorFilter (j : Json) : Except String Json := do
  let g ← jGeneView (← field j "gene")
  let p ← jProfile (← field j "profile")
  let s ← jCNSol (← field j "cn")
  let c ← jCov (← field j "cov")
  let (al, cov) := filterAlleles g p s c
  pure (objJ [("alleles", listJ strJ (al.map (·.name))), ("cov", covJ cov),
              ("has_candidates", boolJ (majorHasCandidates s al))])

/-- the evidence filter of `estimate_minor` -/
def opMinorFilter (j : Json) : Except String Json := do
  let g ← jGeneView (← field j "gene")
  let p ← jProfile (← field j "profile")
  let lastCn ← jCNSol (← field j "last_cn")
  let c ← jCov (← field j "cov")
  let ms ← jList (jPair (jList jStr) (jList jMut)) (← field j "major_sols")
  let considered := consideredMuts g ms
  pure (objJ [("cov", covJ (minorFilteredCov g p lastCn considered c)),
              ("considered", listJ mutJ considered)])

end Aldy.Driver
