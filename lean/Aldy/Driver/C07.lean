import Aldy.Model.Wire
import Aldy.Model.Normalize

namespace Aldy.Driver
open Lean Aldy.Wire

def jDRead (j : Json) : Except String DRead := do
  pure { refStart := ← jInt (← field j "pos"), cigar := ← jList (jPair jNat jNat) (← field j "cigar"),
         supplementary := ← jBool (fieldD j "supplementary" (.bool false)),
         hardClipped := ← jBool (fieldD j "hard_clipped" (.bool false)),
         hasSeq := ← jBool (fieldD j "has_seq" (.bool true)) }

/-- sample reads + profile-sample reads -> normalised depth of every region -/
def opNormalize (j : Json) : Except String Json := do
  let reads ← jList jDRead (← field j "reads")
  let preads ← jList jDRead (← field j "profile_reads")
  let regions ← jList (fun r => do
      let gi ← jNat (← field r "gi")
      let n ← jStr (← field r "name")
      let a ← jInt (← field r "a")
      let b ← jInt (← field r "b")
      pure (gi, n, a, b)) (← field j "regions")
  let (ca, cb) ← jPair jInt jInt (← field j "cn_region")
  let samRef : Rat := (regionSum acceptCn consumesCn reads ca cb : Nat)
  let nv : Rat := (regionSum acceptProfile consumesProfile preads ca cb : Nat)
  let out := regions.map fun (gi, n, a, b) =>
    let s : Rat := (regionSum acceptSample consumes reads a b : Nat)
    let p : Rat := (regionSum acceptProfile consumesProfile preads a b : Nat)
    (gi, n, s, p, regionCoverage nv samRef s p)
  pure (objJ [("sam_ref", ratJ samRef), ("neutral_value", ratJ nv),
              ("regions", listJ (fun (e : Nat × String × Rat × Rat × Except NormErr Rat) =>
                 objJ [("gi", natJ e.1), ("name", strJ e.2.1), ("s", ratJ e.2.2.1), ("p", ratJ e.2.2.2.1),
                       ("value", match e.2.2.2.2 with | .ok v => ratJ v | .error .emptyNeutral => strJ "empty_neutral" | .error .invalidProfile => strJ "invalid_profile")]) out)])

end Aldy.Driver
