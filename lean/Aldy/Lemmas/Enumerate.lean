import Aldy.Model.Enumerate
import Mathlib.Tactic.Linarith
import Mathlib.Algebra.Order.Ring.Rat

/-! Helper lemmas for the enumeration loop (`Props/C05.lean` holds the property theorems). -/

namespace Aldy
variable {V : Type} [DecidableEq V]

theorem subsetB_iff (a b : List V) : subsetB a b = true ↔ ∀ x ∈ a, x ∈ b := by
  simp [subsetB, List.all_eq_true]

theorem subsetB_refl (a : List V) : subsetB a a = true := by
  rw [subsetB_iff]; intro x hx; exact hx

theorem subsetB_trans {a b c : List V} (h1 : subsetB a b = true) (h2 : subsetB b c = true) :
    subsetB a c = true := by
  rw [subsetB_iff] at *; intro x hx; exact h2 x (h1 x hx)

theorem okCuts_nil (q : Pt V) : okCuts ([] : List (List V)) q = true := by simp [okCuts]

theorem okCuts_cons (c : List V) (cs : List (List V)) (q : Pt V) :
    okCuts (c :: cs) q = true ↔ subsetB c q.act = false ∧ okCuts cs q = true := by
  simp [okCuts, okCut]

/-- With a positive precision the literal stop test is `obj ≥ (1+gap)·best + eps`. -/
theorem rejected_iff {gap eps best obj : Rat} (heps : 0 < eps) :
    rejected gap eps best obj = true ↔ (1 + gap) * best + eps ≤ obj := by
  unfold rejected
  simp only [Bool.and_eq_true, decide_eq_true_eq, ge_iff_le, gt_iff_lt]
  constructor
  · rintro ⟨h1, h2⟩
    split at h1
    · linarith
    · linarith
  · intro h
    have : ¬ (obj - (1 + gap) * best < 0) := by linarith
    simp only [this, if_false]
    constructor <;> linarith

theorem rejected_false_iff {gap eps best obj : Rat} (heps : 0 < eps) :
    rejected gap eps best obj = false ↔ obj < (1 + gap) * best + eps := by
  rw [← not_iff_not, Bool.not_eq_false, rejected_iff heps, not_lt]

theorem rejected_mono {gap eps best o1 o2 : Rat} (heps : 0 < eps) (h : o1 ≤ o2)
    (hr : rejected gap eps best o1 = true) : rejected gap eps best o2 = true := by
  rw [rejected_iff heps] at *; linarith

variable {M : List (Pt V)} {gap eps : Rat} {limit : Option Nat}

/-- Every yielded point is a feasible point that satisfies the cuts in force at the start. -/
theorem Run.mem_and_cuts {best cuts iter ps c}
    (h : Run M gap eps limit best cuts iter ps c) :
    ∀ p ∈ ps, p ∈ M ∧ okCuts cuts p = true := by
  induction h with
  | infeasible _ => simp
  | badStatus => simp
  | gapStop _ _ => simp
  | limitStop ha _ _ =>
    intro p hp; simp at hp; subst hp; exact ⟨ha.1, ha.2.1⟩
  | more ha _ _ _ ih =>
    intro q hq
    rcases List.mem_cons.mp hq with rfl | hq
    · exact ⟨ha.1, ha.2.1⟩
    · have := ih q hq
      exact ⟨this.1, ((okCuts_cons _ _ _).mp this.2).2⟩

/-- The reference value `best_obj` the loop carries: the given one, else the first objective. -/
def refObj (best : Option Rat) (ps : List (Pt V)) : Rat :=
  match best, ps with
  | some b, _ => b
  | none, p :: _ => p.obj
  | none, [] => 0

theorem Run.not_rejected {best cuts iter ps c}
    (h : Run M gap eps limit best cuts iter ps c) :
    ∀ p ∈ ps, rejected gap eps (refObj best ps) p.obj = false := by
  induction h with
  | infeasible _ => simp
  | badStatus => simp
  | gapStop _ _ => simp
  | @limitStop best cuts iter p ha hr _ =>
    intro q hq; simp at hq; subst hq
    cases best <;> simpa [refObj] using hr
  | @more best cuts iter p ps c ha hr _ _ ih =>
    intro q hq
    have e : refObj best (p :: ps) = best.getD p.obj := by cases best <;> simp [refObj]
    rcases List.mem_cons.mp hq with rfl | hq
    · rw [e]; exact hr
    · have := ih q hq
      rw [e]; simpa [refObj] using this

theorem Run.pairwise_not_subset {best cuts iter ps c}
    (h : Run M gap eps limit best cuts iter ps c) :
    ps.Pairwise fun p q => subsetB p.act q.act = false := by
  induction h with
  | infeasible _ => simp
  | badStatus => simp
  | gapStop _ _ => simp
  | limitStop _ _ _ => simp
  | more ha _ _ hrun ih =>
    refine List.pairwise_cons.mpr ⟨?_, ih⟩
    intro q hq
    exact ((okCuts_cons _ _ _).mp (hrun.mem_and_cuts q hq).2).1

theorem Run.pairwise_obj_le {best cuts iter ps c}
    (h : Run M gap eps limit best cuts iter ps c) :
    ps.Pairwise fun p q => p.obj ≤ q.obj := by
  induction h with
  | infeasible _ => simp
  | badStatus => simp
  | gapStop _ _ => simp
  | limitStop _ _ _ => simp
  | more ha _ _ hrun ih =>
    refine List.pairwise_cons.mpr ⟨?_, ih⟩
    intro q hq
    have := hrun.mem_and_cuts q hq
    exact ha.2.2 q this.1 ((okCuts_cons _ _ _).mp this.2).2

/-- Completeness modulo supersets, threaded form.  `b` is the reference value; when the
loop has not fixed it yet (`best = none`) it is the objective of any argmin. -/
theorem Run.complete_aux (heps : 0 < eps) {best cuts iter ps c}
    (h : Run M gap eps limit best cuts iter ps c) :
    c = true → ∀ b, (∀ p, IsArgmin M cuts p → best.getD p.obj = b) →
    ∀ q ∈ M, okCuts cuts q = true → rejected gap eps b q.obj = false →
      ∃ p ∈ ps, subsetB p.act q.act = true ∧ p.obj ≤ q.obj := by
  induction h with
  | infeasible hinf =>
    intro _ b _ q hq hc _
    rw [hinf q hq] at hc; cases hc
  | badStatus => intro hc; cases hc
  | @gapStop best cuts iter p ha hr =>
    intro _ b hb q hq hc hnr
    rw [hb p ha] at hr
    have := rejected_mono heps (ha.2.2 q hq hc) hr
    rw [this] at hnr; cases hnr
  | limitStop _ _ _ => intro hc; cases hc
  | @more best cuts iter p ps c ha hr _ hrun ih =>
    intro hc b hb q hq hcut hnr
    by_cases hs : subsetB p.act q.act = true
    · exact ⟨p, List.mem_cons_self, hs, ha.2.2 q hq hcut⟩
    · have hs' : subsetB p.act q.act = false := by simpa using hs
      have hb' : ∀ p', IsArgmin M (p.act :: cuts) p' → (some (best.getD p.obj)).getD p'.obj = b := by
        intro p' _; simpa using hb p ha
      obtain ⟨p', hp', h1, h2⟩ :=
        ih hc b hb' q hq ((okCuts_cons _ _ _).mpr ⟨hs', hcut⟩) hnr
      exact ⟨p', List.mem_cons_of_mem _ hp', h1, h2⟩

end Aldy
