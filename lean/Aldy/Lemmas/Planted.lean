import Aldy.Props.C02
import Aldy.Model.Planted

/-!
Helper lemmas for C01: the assignment that *plants* `k a` copies of every candidate allele `a`
and the sums it produces over the selector variables of the major-stage model.
-/

namespace Aldy
open MajorInst

theorem copies_eq_range (I : MajorInst) (a : MajorA) :
    I.copies a = List.range (max 1 (I.cn.count a.cnConfig)) := by
  unfold MajorInst.copies
  cases h : I.cn.count a.cnConfig with
  | zero => simp
  | succ n =>
    have : max 1 (n + 1) = n + 1 := by omega
    rw [this, List.range_succ_eq_map]
    congr 1
    rw [List.filter_cons]
    simp only [ge_iff_le]
    apply List.filter_eq_self.mpr
    intro x hx
    obtain ⟨y, _, rfl⟩ := List.mem_map.mp hx
    simp

theorem indicator_range_sum (k N : Nat) :
    ((List.range N).map fun i => if i < k then (1 : Rat) else 0).sum = ((min k N : Nat) : Rat) := by
  induction N with
  | zero => simp
  | succ N ih =>
    rw [List.range_succ, List.map_append, List.sum_append, ih]
    by_cases h : N < k
    · have : min k (N + 1) = min k N + 1 := by omega
      simp [h, this]
    · have : min k (N + 1) = min k N := by omega
      simp [h, this]

theorem filter_pair_fst {α β : Type} (P : α → Bool) (a : α) (l : List β) :
    (l.map fun i => (a, i)).filter (fun s => P s.1) = if P a then l.map (fun i => (a, i)) else [] := by
  induction l with
  | nil => simp
  | cons x xs ih =>
    by_cases h : P a <;> simp [h] at ih ⊢

/-- the sum of the planted selectors over the slots of the alleles that satisfy `P` is the
number of planted copies of those alleles -/
theorem planted_sum_slots (I : MajorInst) (k : String → Nat) (P : MajorA → Bool)
    (as : List MajorA) (hfit : ∀ a ∈ as, k a.name ≤ max 1 (I.cn.count a.cnConfig)) :
    sumVars (plantedσ I k) (((as.flatMap fun a => (I.copies a).map fun i => (a, i)).filter fun s => P s.1).map va) =
      ((as.filter P).map fun a => (k a.name : Rat)).sum := by
  induction as with
  | nil => simp
  | cons a as ih =>
    have ih' := ih (fun b hb => hfit b (by simp [hb]))
    rw [List.flatMap_cons, List.filter_append, List.map_append, sumVars_append, ih', filter_pair_fst]
    have hk := hfit a (by simp)
    have hone : sumVars (plantedσ I k) (((I.copies a).map fun i => (a, i)).map va) = (k a.name : Rat) := by
      rw [copies_eq_range, sumVars, List.map_map, List.map_map]
      have : ((plantedσ I k ∘ va) ∘ fun i => (a, i)) = fun i => if i < k a.name then (1 : Rat) else 0 := by
        funext i; simp [va, plantedσ]
      rw [this, indicator_range_sum]
      have : min (k a.name) (max 1 (I.cn.count a.cnConfig)) = k a.name := by omega
      rw [this]
    by_cases hP : P a
    · simp only [hP, if_true, List.filter_cons, hone]
      simp
    · simp only [hP, List.filter_cons]
      simp

theorem planted_A_bin (I : MajorInst) (k : String → Nat) (a : String) (i : Nat) : IsBin (plantedσ I k (.A a i)) := by
  simp only [plantedσ]; split_ifs <;> simp [IsBin]

theorem planted_OR_bin (I : MajorInst) (k : String → Nat) (m : Mut) : IsBin (plantedσ I k (.OR m)) := by
  simp only [plantedσ]; split_ifs <;> simp [IsBin]

end Aldy
