import Aldy.Model.Ilp
import Mathlib.Tactic.Linarith
import Mathlib.Tactic.Ring
import Mathlib.Tactic.Push
import Mathlib.Algebra.Order.Ring.Rat
import Mathlib.Algebra.Order.Ring.Abs

/-! Semantics of the helper builders of `Model/Ilp.lean`. -/

namespace Aldy
variable {V : Type}

def IsBin (x : Rat) : Prop := x = 0 ∨ x = 1

theorem IsBin.nonneg {x : Rat} (h : IsBin x) : 0 ≤ x := by rcases h with h | h <;> simp [h]
theorem IsBin.le_one {x : Rat} (h : IsBin x) : x ≤ 1 := by rcases h with h | h <;> simp [h]

@[simp] theorem evalTerms_nil (σ : V → Rat) : evalTerms σ [] = 0 := rfl
@[simp] theorem evalTerms_cons (σ : V → Rat) (t : Rat × V) (ts : List (Rat × V)) :
    evalTerms σ (t :: ts) = t.1 * σ t.2 + evalTerms σ ts := by
  simp [evalTerms]
theorem evalTerms_append (σ : V → Rat) (a b : List (Rat × V)) :
    evalTerms σ (a ++ b) = evalTerms σ a + evalTerms σ b := by
  simp [evalTerms]

/-- Sum of the values of a list of variables. -/
def sumVars (σ : V → Rat) (xs : List V) : Rat := (xs.map σ).sum

@[simp] theorem sumVars_nil (σ : V → Rat) : sumVars σ [] = 0 := rfl
@[simp] theorem sumVars_cons (σ : V → Rat) (x : V) (xs : List V) :
    sumVars σ (x :: xs) = σ x + sumVars σ xs := by simp [sumVars]
theorem sumVars_append (σ : V → Rat) (a b : List V) :
    sumVars σ (a ++ b) = sumVars σ a + sumVars σ b := by simp [sumVars]

theorem evalTerms_map_coeff (σ : V → Rat) (c : Rat) (xs : List V) :
    evalTerms σ (xs.map fun x => (c, x)) = c * sumVars σ xs := by
  induction xs with
  | nil => simp
  | cons x xs ih => simp [ih]; ring

theorem sumVars_nonneg (σ : V → Rat) (xs : List V) (h : ∀ x ∈ xs, IsBin (σ x)) :
    0 ≤ sumVars σ xs := by
  induction xs with
  | nil => simp
  | cons x xs ih =>
    have h1 := (h x (by simp)).nonneg
    have h2 := ih (fun y hy => h y (by simp [hy]))
    simp; linarith

theorem sumVars_le_length (σ : V → Rat) (xs : List V) (h : ∀ x ∈ xs, IsBin (σ x)) :
    sumVars σ xs ≤ xs.length := by
  induction xs with
  | nil => simp
  | cons x xs ih =>
    have h1 := (h x (by simp)).le_one
    have h2 := ih (fun y hy => h y (by simp [hy]))
    simp; linarith

theorem sumVars_eq_length (σ : V → Rat) (xs : List V) (h : ∀ x ∈ xs, σ x = 1) :
    sumVars σ xs = xs.length := by
  induction xs with
  | nil => simp
  | cons x xs ih =>
    have h1 := h x (by simp)
    have h2 := ih (fun y hy => h y (by simp [hy]))
    simp [h1, h2]; ring

theorem sumVars_le_pred (σ : V → Rat) (xs : List V) (h : ∀ x ∈ xs, IsBin (σ x))
    (h0 : ∃ x ∈ xs, σ x = 0) : sumVars σ xs ≤ (xs.length : Rat) - 1 := by
  induction xs with
  | nil => obtain ⟨x, hx, _⟩ := h0; simp at hx
  | cons x xs ih =>
    obtain ⟨y, hy, hy0⟩ := h0
    have hall : ∀ z ∈ xs, IsBin (σ z) := fun z hz => h z (by simp [hz])
    rcases List.mem_cons.mp hy with rfl | hy
    · have := sumVars_le_length σ xs hall
      simp [hy0]; linarith
    · have h1 := (h x (by simp)).le_one
      have := ih hall ⟨y, hy, hy0⟩
      simp; linarith

theorem sumVars_pos_of_one (σ : V → Rat) (xs : List V) (h : ∀ x ∈ xs, IsBin (σ x))
    (h1 : ∃ x ∈ xs, σ x = 1) : 1 ≤ sumVars σ xs := by
  induction xs with
  | nil => obtain ⟨x, hx, _⟩ := h1; simp at hx
  | cons x xs ih =>
    obtain ⟨y, hy, hy1⟩ := h1
    have hall : ∀ z ∈ xs, IsBin (σ z) := fun z hz => h z (by simp [hz])
    rcases List.mem_cons.mp hy with rfl | hy
    · have := sumVars_nonneg σ xs hall
      simp [hy1]; linarith
    · have h0 := (h x (by simp)).nonneg
      have := ih hall ⟨y, hy, hy1⟩
      simp; linarith

theorem sumVars_zero_of_all_zero (σ : V → Rat) (xs : List V) (h : ∀ x ∈ xs, σ x = 0) :
    sumVars σ xs = 0 := by
  induction xs with
  | nil => simp
  | cons x xs ih => simp [h x (by simp), ih (fun y hy => h y (by simp [hy]))]

/-! ### Product gadget -/

theorem leVar_holds (σ : V → Rat) (a b : V) : (leVar a b).holds σ ↔ σ a ≤ σ b := by
  simp [leVar, LinCon.holds]

/-- `model.prod` is exact on binaries: the constraints hold iff `res = AND(terms)`. -/
theorem prod_gadget (σ : V → Rat) (res : V) (ts : List V)
    (hres : IsBin (σ res)) (hts : ∀ t ∈ ts, IsBin (σ t)) :
    (∀ c ∈ prodCons res ts, c.holds σ) ↔
      ((σ res = 1) ↔ (∀ t ∈ ts, σ t = 1)) := by
  unfold prodCons
  simp only [List.mem_append, List.mem_map, List.mem_singleton]
  constructor
  · intro h
    constructor
    · intro hr t ht
      have := (leVar_holds σ res t).mp (h _ (Or.inl ⟨t, ht, rfl⟩))
      rcases hts t ht with h0 | h1
      · rw [hr, h0] at this; linarith
      · exact h1
    · intro hall
      have hc := h _ (Or.inr rfl)
      simp only [LinCon.holds, evalTerms_cons, evalTerms_map_coeff] at hc
      rw [sumVars_eq_length σ ts hall] at hc
      rcases hres with h0 | h1
      · rw [h0] at hc; norm_num at hc
      · exact h1
  · intro hiff c hc
    rcases hc with ⟨t, ht, rfl⟩ | rfl
    · rw [leVar_holds]
      rcases hres with h0 | h1
      · rw [h0]; exact (hts t ht).nonneg
      · rw [h1, (hiff.mp h1) t ht]
    · simp only [LinCon.holds, evalTerms_cons, evalTerms_map_coeff]
      rcases hres with h0 | h1
      · have : ¬ ∀ t ∈ ts, σ t = 1 := fun hall => by
          have := hiff.mpr hall; rw [h0] at this; norm_num at this
        push Not at this
        obtain ⟨t, ht, hne⟩ := this
        have ht0 : σ t = 0 := by
          rcases hts t ht with h | h
          · exact h
          · exact absurd h hne
        have := sumVars_le_pred σ ts hts ⟨t, ht, ht0⟩
        rw [h0]; linarith
      · have := sumVars_le_length σ ts hts
        rw [h1]; linarith

/-! ### Absolute-value gadget -/

theorem abs_gadget (σ : V → Rat) (a v : V) :
    (∀ c ∈ absCons a v, c.holds σ) ↔ |σ v| ≤ σ a := by
  simp only [absCons, List.mem_cons, List.mem_nil_iff, or_false, forall_eq_or_imp, forall_eq,
    LinCon.holds, evalTerms_cons, evalTerms_nil]
  rw [abs_le]
  constructor
  · rintro ⟨h1, h2⟩; constructor <;> linarith
  · rintro ⟨h1, h2⟩; constructor <;> linarith

/-- With positive weights, a weighted sum of helpers is at least the weighted sum of
absolute values, with equality exactly when every helper equals the absolute value. -/
theorem abssum_opt (ts : List (Rat × Rat × Rat))   -- (weight, value, helper)
    (hw : ∀ t ∈ ts, 0 < t.1) (hf : ∀ t ∈ ts, |t.2.1| ≤ t.2.2) :
    (ts.map fun t => t.1 * |t.2.1|).sum ≤ (ts.map fun t => t.1 * t.2.2).sum ∧
    ((ts.map fun t => t.1 * t.2.2).sum ≤ (ts.map fun t => t.1 * |t.2.1|).sum →
      ∀ t ∈ ts, t.2.2 = |t.2.1|) := by
  induction ts with
  | nil => simp
  | cons t ts ih =>
    have hw' : ∀ t ∈ ts, 0 < t.1 := fun x hx => hw x (by simp [hx])
    have hf' : ∀ t ∈ ts, |t.2.1| ≤ t.2.2 := fun x hx => hf x (by simp [hx])
    obtain ⟨ih1, ih2⟩ := ih hw' hf'
    have hwt := hw t (by simp)
    have hft := hf t (by simp)
    have hmul : t.1 * |t.2.1| ≤ t.1 * t.2.2 := mul_le_mul_of_nonneg_left hft hwt.le
    simp only [List.map_cons, List.sum_cons]
    constructor
    · linarith
    · intro hle x hx
      have e1 : t.1 * t.2.2 ≤ t.1 * |t.2.1| := by linarith
      have e2 : (ts.map fun t => t.1 * t.2.2).sum ≤ (ts.map fun t => t.1 * |t.2.1|).sum := by linarith
      rcases List.mem_cons.mp hx with rfl | hx
      · have : x.2.2 ≤ |x.2.1| := le_of_mul_le_mul_left e1 hwt
        exact le_antisymm this hft
      · exact ih2 e2 x hx

/-! ### OR gadget -/

theorem or_gadget (σ : V → Rat) (z : V) (xs : List V)
    (hz : IsBin (σ z)) (hxs : ∀ x ∈ xs, IsBin (σ x)) :
    (∀ c ∈ orCons z xs, c.holds σ) ↔ ((σ z = 1) ↔ (∃ x ∈ xs, σ x = 1)) := by
  unfold orCons
  simp only [List.mem_cons, List.mem_map]
  constructor
  · intro h
    have h1 := h _ (Or.inl rfl)
    simp only [LinCon.holds, evalTerms_cons, evalTerms_map_coeff] at h1
    constructor
    · intro hz1
      by_contra hne
      push Not at hne
      have : sumVars σ xs = 0 := sumVars_zero_of_all_zero σ xs (fun x hx => by
        rcases hxs x hx with h0 | h1'
        · exact h0
        · exact absurd h1' (hne x hx))
      rw [hz1, this] at h1; norm_num at h1
    · rintro ⟨x, hx, hx1⟩
      have h2 := h _ (Or.inr ⟨x, hx, rfl⟩)
      simp only [LinCon.holds, evalTerms_cons, evalTerms_nil] at h2
      rcases hz with h0 | h1'
      · rw [h0, hx1] at h2; norm_num at h2
      · exact h1'
  · intro hiff c hc
    rcases hc with rfl | ⟨x, hx, rfl⟩
    · simp only [LinCon.holds, evalTerms_cons, evalTerms_map_coeff]
      rcases hz with h0 | h1
      · have := sumVars_nonneg σ xs hxs
        rw [h0]; linarith
      · have := sumVars_pos_of_one σ xs hxs (hiff.mp h1)
        rw [h1]; linarith
    · simp only [LinCon.holds, evalTerms_cons, evalTerms_nil]
      rcases hxs x hx with h0 | h1
      · have := hz.nonneg
        rw [h0]; linarith
      · have := hiff.mpr ⟨x, hx, h1⟩
        rw [h1, this]; norm_num

/-! ### XOR block of major.py (`CXOR`): five constraints on `VXOR`, `VNEW`, `VOR` -/

theorem xor_gadget (σ : V → Rat) (x n o : V)
    (hx : IsBin (σ x)) (hn : IsBin (σ n)) (ho : IsBin (σ o)) :
    (∀ c ∈ xorCons x n o, c.holds σ) ↔ (σ x = 1 ∧ σ n + σ o = 1) := by
  simp only [xorCons, List.mem_cons, List.mem_nil_iff, or_false, forall_eq_or_imp, forall_eq,
    LinCon.holds, evalTerms_cons, evalTerms_nil]
  constructor
  · rintro ⟨h1, h2, _, _, h5⟩
    have hx1 : σ x = 1 := by
      rcases hx with h | h
      · rw [h] at h5; norm_num at h5
      · exact h
    refine ⟨hx1, ?_⟩
    rw [hx1] at h1 h2
    rcases hn with hn | hn <;> rcases ho with ho | ho <;> rw [hn, ho] at h1 h2 ⊢ <;> linarith
  · rintro ⟨hx1, hs⟩
    rw [hx1]
    rcases hn with hn | hn <;> rcases ho with ho | ho <;> rw [hn, ho] at hs ⊢ <;> first | (exfalso; linarith) | norm_num

/-! ### Exclusion cut -/

theorem cut_iff (σ : V → Rat) (vv : List V) (h : ∀ v ∈ vv, IsBin (σ v)) :
    (cutCon vv).holds σ ↔ ¬ (∀ v ∈ vv, σ v = 1) := by
  simp only [cutCon, LinCon.holds, evalTerms_map_coeff, one_mul]
  constructor
  · intro hle hall
    rw [sumVars_eq_length σ vv hall] at hle
    linarith
  · intro hne
    push Not at hne
    obtain ⟨v, hv, hv1⟩ := hne
    have : σ v = 0 := by
      rcases h v hv with h0 | h1
      · exact h0
      · exact absurd h1 hv1
    exact sumVars_le_pred σ vv h ⟨v, hv, this⟩

end Aldy
