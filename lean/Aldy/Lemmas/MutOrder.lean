import Aldy.Model.Minor
import Mathlib.Data.List.Sort
import Mathlib.Data.String.Basic
import Mathlib.Order.Basic
namespace Aldy

def Mut.le (a b : Mut) : Prop := b.lt a = false

theorem Mut.lt_iff (a b : Mut) : a.lt b = true ↔ a.pos < b.pos ∨ (a.pos = b.pos ∧ a.op < b.op) := by
  simp [Mut.lt]

theorem Mut.le_total (a b : Mut) : Mut.le a b ∨ Mut.le b a := by
  unfold Mut.le
  by_cases h : b.lt a = true
  · right
    cases h2 : a.lt b
    · rfl
    · rw [Mut.lt_iff] at h h2
      rcases h with h | ⟨h, h'⟩ <;> rcases h2 with h2 | ⟨h2, h2'⟩ <;> try omega
      exact absurd h' (lt_asymm h2')
  · left; simpa using h

theorem Mut.le_trans {a b c : Mut} (h1 : Mut.le a b) (h2 : Mut.le b c) : Mut.le a c := by
  unfold Mut.le at *
  cases h : c.lt a
  · rfl
  · exfalso
    rw [Mut.lt_iff] at h
    have n1 : ¬ (b.pos < a.pos ∨ (b.pos = a.pos ∧ b.op < a.op)) := by rw [← Mut.lt_iff]; simp [h1]
    have n2 : ¬ (c.pos < b.pos ∨ (c.pos = b.pos ∧ c.op < b.op)) := by rw [← Mut.lt_iff]; simp [h2]
    push Not at n1 n2
    rcases h with h | ⟨h, h'⟩
    · omega
    · have e1 : a.pos = b.pos := by omega
      have e2 : b.pos = c.pos := by omega
      have := n1.2 e1.symm
      have := n2.2 e2.symm
      exact absurd h' (not_lt.mpr (_root_.le_trans (not_lt.mp ‹¬ b.op < a.op›) (not_lt.mp ‹¬ c.op < b.op›)))

theorem Mut.le_antisymm {a b : Mut} (h1 : Mut.le a b) (h2 : Mut.le b a) : a = b := by
  unfold Mut.le at *
  have n1 : ¬ (b.pos < a.pos ∨ (b.pos = a.pos ∧ b.op < a.op)) := by rw [← Mut.lt_iff]; simp [h1]
  have n2 : ¬ (a.pos < b.pos ∨ (a.pos = b.pos ∧ a.op < b.op)) := by rw [← Mut.lt_iff]; simp [h2]
  push Not at n1 n2
  have e : a.pos = b.pos := by omega
  have := n1.2 e.symm
  have := n2.2 e
  have e2 : a.op = b.op := _root_.le_antisymm (not_lt.mp ‹¬ b.op < a.op›) (not_lt.mp ‹¬ a.op < b.op›)
  cases a; cases b; simp_all

theorem insertMut_perm (x : Mut) (l : List Mut) : (insertMut x l).Perm (x :: l) := by
  induction l with
  | nil => simp [insertMut]
  | cons y ys ih =>
    simp only [insertMut]; split
    · exact List.Perm.refl _
    · exact (List.Perm.cons y ih).trans (List.Perm.swap x y ys)

theorem insertMut_sorted (x : Mut) (l : List Mut) (h : l.Pairwise Mut.le) : (insertMut x l).Pairwise Mut.le := by
  induction l with
  | nil => simp [insertMut]
  | cons y ys ih =>
    simp only [insertMut]; split
    · rename_i hlt
      rw [List.pairwise_cons] at h ⊢
      refine ⟨?_, List.pairwise_cons.mpr h⟩
      have hxy : Mut.le x y := by
        rcases Mut.le_total x y with h' | h'
        · exact h'
        · unfold Mut.le at h'; simp_all
      intro z hz
      rcases List.mem_cons.mp hz with rfl | hz
      · exact hxy
      · exact Mut.le_trans hxy (h.1 z hz)
    · rename_i hlt
      rw [List.pairwise_cons] at h ⊢
      refine ⟨?_, ih h.2⟩
      intro z hz
      rcases List.mem_cons.mp ((insertMut_perm x ys).subset hz) with rfl | hz
      · unfold Mut.le; simpa using hlt
      · exact h.1 z hz

theorem sortFold_spec (l acc : List Mut) (h : acc.Pairwise Mut.le) :
    (l.foldl (fun acc x => insertMut x acc) acc).Pairwise Mut.le ∧ (l.foldl (fun acc x => insertMut x acc) acc).Perm (l ++ acc) := by
  induction l generalizing acc with
  | nil => simpa using h
  | cons x xs ih =>
    simp only [List.foldl_cons]
    obtain ⟨a, b⟩ := ih (insertMut x acc) (insertMut_sorted x acc h)
    refine ⟨a, b.trans ?_⟩
    exact ((List.Perm.append_left xs (insertMut_perm x acc)).trans (List.perm_middle)).trans (by simp)

end Aldy
