import Aldy.Model.Enumerate
