import Aldy.Model.Enumerate
import Aldy.Model.Ilp
import Aldy.Model.Shape
import Aldy.Model.Wire
import Aldy.Props.C05
