import Aldy.Driver.C05
import Aldy.Driver.C01
import Aldy.Driver.C02
import Aldy.Driver.C03
import Aldy.Driver.C18
import Aldy.Driver.C19
import Aldy.Driver.C11
import Aldy.Driver.C10
import Aldy.Driver.C12
import Aldy.Driver.C06
import Aldy.Driver.C07
import Aldy.Driver.C08
import Aldy.Driver.C09
import Aldy.Driver.C04
import Aldy.Driver.C16
import Aldy.Driver.C17

/-! Line-protocol driver: one JSON object per input line (`{"op": ..., ...}`), one JSON
object per output line.  Errors are reported as `{"error": msg}`; the driver never guesses. -/

open Lean Aldy.Wire Aldy.Driver

def dispatch (j : Json) : Except String Json := do
  let op ← jStr (← field j "op")
  match op with
  | "c05" => opC05 j
  | "shape_ilp" => opShapeIlp j
  | "escape" => opEscape j
  | "major_build" => opMajorBuild j
  | "major_filter" => opMajorFilter j
  | "minor_filter" => opMinorFilter j
  | "cn_build" => opCNBuild j
  | "cn_spec" => opCNSpec j
  | "cn_filter" => opCNFilter j
  | "cn_fold" => opCNFold j
  | "cn_decision" => opCNDecision j
  | "params_update" => opParamsUpdate j
  | "params_load" => opParamsLoad j
  | "split_param" => opSplitParam j
  | "param_table" => opParamTable j
  | "guard" => opGuard j
  | "diplotype" => opDiplotype j
  | "natkey" => opNatKey j
  | "select" => opSelect j
  | "writers" => opWriters j
  | "pileup" => opPileup j
  | "normalize" => opNormalize j
  | "coords" => opCoords j
  | "catalogue" => opCatalogue j
  | "minor_build" => opMinorBuild j
  | "major_spec" => opMajorSpec j
  | "major_corr" => opMajorCorr j
  | "planted_major" => opPlantedMajor j
  | "planted_minor" => opPlantedMinor j
  | "minor_readout" => opMinorReadout j
  | "minor_spec" => opMinorSpec j
  | "vcf_load" => opVcfLoad j
  | "dump" => opDump j
  | "ping" => pure (objJ [("pong", boolJ true)])
  | _ => .error s!"unknown op {op}"

/-- Large shared inputs (gene views) are sent once with `{"op":"put","id":..,"value":..}` and
referenced afterwards as `{"ref": id}` in any top-level field. -/
def resolve (store : List (String × Json)) (j : Json) : Json :=
  match j with
  | .obj kvs =>
    Json.mkObj <| kvs.toList.map fun (k, v) =>
      match v.getObjVal? "ref" with
      | .ok (.str id) => (k, (store.lookup id).getD v)
      | _ => (k, v)
  | _ => j

partial def loop (hin hout : IO.FS.Stream) (store : List (String × Json)) : IO Unit := do
  let line ← hin.getLine
  if line.isEmpty then return ()
  match Json.parse line with
  | .error e =>
    hout.putStrLn (objJ [("error", strJ s!"json: {e}")]).compress
    hout.flush
    loop hin hout store
  | .ok j =>
    match j.getObjVal? "op" with
    | .ok (.str "put") =>
      let id := match j.getObjVal? "id" with | .ok (.str s) => s | _ => ""
      let v := match j.getObjVal? "value" with | .ok v => v | _ => .null
      hout.putStrLn (objJ [("stored", strJ id)]).compress
      hout.flush
      loop hin hout ((id, v) :: store.filter (fun e => e.1 != id))
    | _ =>
      let out := match dispatch (resolve store j) with
        | .ok r => r
        | .error e => objJ [("error", strJ e)]
      hout.putStrLn out.compress
      hout.flush
      loop hin hout store

def main : IO Unit := do
  loop (← IO.getStdin) (← IO.getStdout) []
