import Aldy.Driver.C05

/-! Line-protocol driver: one JSON object per input line (`{"op": ..., ...}`), one JSON
object per output line.  Errors are reported as `{"error": msg}`; the driver never guesses. -/

open Lean Aldy.Wire Aldy.Driver

def dispatch (j : Json) : Except String Json := do
  let op ← jStr (← field j "op")
  match op with
  | "c05" => opC05 j
  | "shape_ilp" => opShapeIlp j
  | "escape" => opEscape j
  | "ping" => pure (objJ [("pong", boolJ true)])
  | _ => .error s!"unknown op {op}"

partial def loop (hin hout : IO.FS.Stream) : IO Unit := do
  let line ← hin.getLine
  if line.isEmpty then return ()
  let out := match Json.parse line with
    | .error e => objJ [("error", strJ s!"json: {e}")]
    | .ok j => match dispatch j with
      | .ok r => r
      | .error e => objJ [("error", strJ e)]
  hout.putStrLn out.compress
  hout.flush
  loop hin hout

def main : IO Unit := do
  loop (← IO.getStdin) (← IO.getStdout)
